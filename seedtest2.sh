#!/bin/sh
# usage: ./seedtest2.sh <patch file> <check id> [more check ids...]
# like seedtest.sh, but applies the seeded change to a scratch worktree of /repo (VERIF_REPO) instead of
# /repo itself, so it can run while other checks / sweeps build from /repo; evidence files are not rewritten.
P="$1"; shift
WT=/tmp/seed/st-$$
git -C /repo worktree add -q --detach $WT HEAD || exit 2
( cd $WT && git apply "$P" ) || { echo "patch does not apply"; git -C /repo worktree remove --force $WT; exit 2; }
cd /verif
for C in "$@"; do
  VERIF_REPO=$WT VERIF_REPLAY_NOEVIDENCE=1 ./check "$C" quick 2>&1 | grep -v "^KNOWN-FINDING" | grep "VIOLATION\|fingerprint\|quick seed" | head -8 | cut -c1-260
done
git -C /repo worktree remove --force $WT
