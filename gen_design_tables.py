#!/usr/bin/env python3
"""Regenerates sections 9.1, 9.2 and 10 of DESIGN.md from git history, known_findings.json and seeded/*/meta.json"""
import json, subprocess, glob, os, re
D = '/verif/DESIGN.md'
s = open(D).read()
a = s.index('### 9.1 Fix commits in /repo')
b = s.index('## Corrections')
log = subprocess.run(['git', '-C', '/repo', 'log', '--reverse', '--format=%h %s'], capture_output=True, text=True).stdout.splitlines()
fixes = [l for l in log if l.split(' ', 1)[1].startswith('fix:')]
out = ['### 9.1 Fix commits in /repo (oldest first)', '']
for l in fixes:
    h, m = l.split(' ', 1)
    out.append('* `%s` %s' % (h, m))
out += ['', 'Every one is an unguarded commit touching only what the defect requires; the repository\'s',
        'own suite (unedited) passes after each (http `TestMisc` fails in the baseline already).', '',
        '### 9.2 Known findings file (as committed)', '',
        '| property | status | fingerprint | what fails |', '|---|---|---|---|']
k = json.load(open('/verif/known_findings.json'))
for f in k['findings']:
    st = f['status'] + (' ' + f['commit'] if f.get('commit') else '')
    out.append('| %s | %s | `%s` | %s |' % (f['property'], st, f['fingerprint'].replace('|', '\\|'), f['what'].replace('|', '\\|').replace('\n', ' ')))
out += ['', 'Open findings are printed as `KNOWN-FINDING:` lines by the check that observes them and do not',
        'fail it; any other fingerprint of the same property does.  `fixed` entries suppress nothing.', '']
m = re.search(r'(Status of the suspicions of section 5:.*?)\n\n', s[a:b], re.S)
if m:
    out += [m.group(1), '']
out += ['## 10. Seeded changes and which checks catch them', '',
        'Two rounds of fresh sub-agents (one per property and round; each was given only the property text,',
        'in round 2 also a one-line description of the round-1 change to avoid, and its own scratch worktree)',
        'produced 40 changes that compile, pass the repository\'s suite and break the property under specific',
        'conditions.  Each was confirmed by me in a scratch worktree (`confirm_seed.sh`) and is kept under',
        '`seeded/<id>/` (round 1) and `seeded/<id>-2/` (round 2) with its demonstration.  `seedsweep.sh`',
        'applies each to /repo in turn, runs the catching check and restores /repo.', '',
        '| seed | change (author\'s summary, shortened) | caught by | first verdict |', '|---|---|---|---|']
missed = 0
for d in sorted(glob.glob('/verif/seeded/*/')):
    m_ = json.load(open(d + 'meta.json'))
    sid = os.path.basename(d.rstrip('/'))
    summ = m_.get('summary') or ''
    if isinstance(summ, list):
        summ = ' '.join(summ)
    summ = re.sub(r'\s+', ' ', str(summ))[:230].replace('|', '\\|')
    hist = m_.get('history', '')
    first = 'MISSED, check strengthened' if hist.lower().startswith('missed') else 'caught'
    if first.startswith('MISSED'):
        missed += 1
    out.append('| %s | %s | %s | %s |' % (sid, summ, m_.get('caught_by', '').replace('|', '\\|'), first))
out += ['', '%d of the 40 were missed by the checks as they stood when the change arrived; what was missing and what was' % missed,
        'added is in each `meta.json` (`history`) and summarised in section 8.4.  After the strengthening every one of',
        'the 40 is caught in the quick tier (several by more than one check).', '']
s = s[:a] + '\n'.join(out) + '\n' + s[b:]
open(D, 'w').write(s)
print('fixes', len(fixes), 'findings', len(k['findings']), 'missed', missed)
