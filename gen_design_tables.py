#!/usr/bin/env python3
"""Regenerates sections 9.1, 9.2 and 10 of DESIGN.md from git history, known_findings.json and seeded/*/meta.json"""
import json, subprocess, glob, os, re
D = '/verif/DESIGN.md'
s = open(D).read()
a = s.index('### 9.1 Fix commits in /repo')
b = s.index('## Corrections')
log = subprocess.run(['git', '-C', '/repo', 'log', '--reverse', '--format=%h %s'], capture_output=True, text=True).stdout.splitlines()
fixes = [l for l in log if l.split(' ', 1)[1].startswith('fix:')]
out = ['### 9.1 Fix commits in /repo (oldest first)', '']
for l in fixes:
    h, m = l.split(' ', 1)
    out.append('* `%s` %s' % (h, m))
out += ['', 'Every one is an unguarded commit touching only what the defect requires; the repository\'s',
        'own suite (unedited) passes after each (http `TestMisc` fails in the baseline already).', '',
        '### 9.2 Known findings file (as committed)', '',
        '| property | status | fingerprint | what fails |', '|---|---|---|---|']
k = json.load(open('/verif/known_findings.json'))
for f in k['findings']:
    st = f['status'] + (' ' + f['commit'] if f.get('commit') else '')
    out.append('| %s | %s | `%s` | %s |' % (f['property'], st, f['fingerprint'].replace('|', '\\|'), f['what'].replace('|', '\\|').replace('\n', ' ')))
out += ['', 'Open findings are printed as `KNOWN-FINDING:` lines by the check that observes them and do not',
        'fail it; any other fingerprint of the same property does.  `fixed` entries suppress nothing.', '']
m = re.search(r'(Status of the suspicions of section 5:.*?)\n\n', s[a:b], re.S)
if m:
    out += [m.group(1), '']
out += ['## 10. Seeded changes and which checks catch them', '',
        'Three rounds of fresh sub-agents (one per property and round; each was given only the property text,',
        'from round 2 on also one-line descriptions of the earlier changes to avoid, and its own scratch worktree)',
        'produced NSEEDS changes that compile, pass the repository\'s suite and break the property under specific',
        'conditions.  Each was confirmed by me in a scratch worktree (`confirm_seed.sh`) and is kept under',
        '`seeded/<id>/` (round 1), `seeded/<id>-2/` and `seeded/<id>-3/` with its demonstration (one round-3 change',
        'became void when the baseline defect it relied on was repaired: `seeded/_not_kept/`).  `seedsweep.sh` applies',
        'each to a scratch worktree in turn (`VERIF_REPO`) and runs the catching check there.', '',
        '| seed | change (author\'s summary, shortened) | caught by | first verdict |', '|---|---|---|---|']
missed = 0
dirs = sorted(glob.glob('/verif/seeded/C*/'))
for d in dirs:
    m_ = json.load(open(d + 'meta.json'))
    sid = os.path.basename(d.rstrip('/'))
    summ = m_.get('summary') or ''
    if isinstance(summ, list):
        summ = ' '.join(summ)
    summ = re.sub(r'\s+', ' ', str(summ))[:230].replace('|', '\\|')
    hist = m_.get('history', '')
    first = 'MISSED, check strengthened' if hist.lower().startswith('missed') else 'caught'
    if first.startswith('MISSED'):
        missed += 1
    out.append('| %s | %s | %s | %s |' % (sid, summ, m_.get('caught_by', '').replace('|', '\\|'), first))
out += ['', '%d of the %d were missed by the checks as they stood when the change arrived; what was missing and what was' % (missed, len(dirs)),
        'added is in each `meta.json` (`history`) and summarised in section 8.4.  After the strengthening every one of',
        'them is caught in the quick tier (several by more than one check).', '']
out = [l.replace('NSEEDS', str(len(dirs))) for l in out]
s = s[:a] + '\n'.join(out) + '\n' + s[b:]
open(D, 'w').write(s)
print('fixes', len(fixes), 'findings', len(k['findings']), 'missed', missed)
