#!/bin/sh
# usage: ./seedtest.sh <patch file> <check id> [more check ids...]
# applies a seeded change to /repo, runs the given checks (quick), and always undoes it
P="$1"; shift
cd /repo && git apply "$P" || { echo "patch does not apply"; exit 2; }
cd /verif
for C in "$@"; do
  ./check "$C" quick 2>&1 | grep -v "^KNOWN-FINDING" | grep "VIOLATION\|fingerprint\|quick seed" | head -8 | cut -c1-260
done
cd /repo && git checkout -- . && git status --short | head -3
