#!/bin/sh
# usage: confirm_seed.sh <id> <outdir> <demo file> <pkg dir> <run regexp>
# Confirms a seeded change in a scratch worktree: builds, runs the repository's suite with
# the change, runs the demonstration with and without it.  Prints a summary; removes the worktree.
ID=$1; OUT=$2; DEMO=$3; PKG=$4; RUN=$5
export GOFLAGS=-mod=mod GOPROXY=off GOSUMDB=off GOTOOLCHAIN=local
WT=/tmp/seed/cf-$ID
rm -rf $WT; git -C /repo worktree prune; git -C /repo worktree add -q --detach $WT HEAD || exit 2
cd $WT
git apply $OUT/patch.diff || { echo "PATCH-DOES-NOT-APPLY"; git -C /repo worktree remove --force $WT; exit 2; }
go1.26 build ./... && echo BUILD-OK || echo BUILD-FAIL
go1.26 test -vet=off -count=1 ./... 2>&1 | grep -v "no test files" | grep -v "^ok" | grep "^---\|^FAIL" | tr '\n' ' '; echo "<- suite failures with patch (http TestMisc is baseline)"
cp $OUT/$DEMO $PKG/
go1.26 test -vet=off -count=1 -run "$RUN" ./$PKG/ >/tmp/seed/cf-$ID.with.log 2>&1; echo "demo WITH patch exit=$?"
git apply -R $OUT/patch.diff
go1.26 test -vet=off -count=1 -run "$RUN" ./$PKG/ >/tmp/seed/cf-$ID.without.log 2>&1; echo "demo WITHOUT patch exit=$?"
cd /; git -C /repo worktree remove --force $WT
