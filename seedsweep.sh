#!/bin/sh
# usage: seedsweep.sh [tier]   applies every confirmed seeded change under seeded/ in turn to a scratch worktree of
# /repo (VERIF_REPO), runs the check(s) named in its meta.json (caught_by) there and reports whether a VIOLATION line
# was printed.  /repo itself is not touched; evidence files are not rewritten.
T=${1:-quick}
cd /verif
for D in seeded/C*/; do
  ID=$(basename $D)
  [ -n "$SKIPLOG" ] && grep -q "^$ID: caught" "$SKIPLOG" && continue
  CHECKS=$(python3 -c "
import json,re,sys
m=json.load(open('$D/meta.json'))
print(' '.join(sorted(set(re.findall(r'\bC\d\d(?=[:/ ])', m.get('caught_by',''))))) or m['property'])")
  WT=/tmp/seed/sw-$$
  git -C /repo worktree add -q --detach $WT HEAD || { echo "$ID: cannot create worktree"; continue; }
  if ! ( cd $WT && git apply /verif/$D/patch.diff ); then echo "$ID: PATCH DOES NOT APPLY"; git -C /repo worktree remove --force $WT; continue; fi
  HIT=""
  for C in $CHECKS; do
    N=$(VERIF_REPO=$WT VERIF_REPLAY_NOEVIDENCE=1 ./check $C $T 2>/dev/null | grep -c "^VIOLATION")
    [ "$N" -gt 0 ] && HIT="$HIT $C($N)"
  done
  git -C /repo worktree remove --force $WT
  if [ -n "$HIT" ]; then echo "$ID: caught by$HIT"; else echo "$ID: MISSED (checks run: $CHECKS)"; fi
done
git -C /repo worktree prune
