#!/bin/sh
# usage: seedsweep.sh [tier]   applies every confirmed seeded change under seeded/ to /repo in turn, runs the
# check(s) named in its meta.json (caught_by) and reports whether a VIOLATION line was printed.
# /repo is restored after each one.  Do not run while other checks are building from /repo.
T=${1:-quick}
cd /verif
for D in seeded/*/; do
  ID=$(basename $D)
  CHECKS=$(python3 -c "
import json,re,sys
m=json.load(open('$D/meta.json'))
print(' '.join(sorted(set(re.findall(r'\bC\d\d(?=[:/ ])', m.get('caught_by',''))))) or m['property'])")
  (cd /repo && git apply /verif/$D/patch.diff) || { echo "$ID: PATCH DOES NOT APPLY"; continue; }
  HIT=""
  for C in $CHECKS; do
    N=$(./check $C $T 2>/dev/null | grep -c "^VIOLATION")
    [ "$N" -gt 0 ] && HIT="$HIT $C($N)"
  done
  (cd /repo && git checkout -- .)
  if [ -n "$HIT" ]; then echo "$ID: caught by$HIT"; else echo "$ID: MISSED (checks run: $CHECKS)"; fi
done
git -C /repo status --short | head -3
