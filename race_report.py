#!/usr/bin/env python3
"""usage: race_report.py <work dir>   lists deduplicated race reports whose two access stacks lie entirely in sts code
(reports with a harness frame in either access stack are the harness's own and are only counted)"""
import re, glob, sys, collections
txt = ''.join(open(f, errors='replace').read() for f in glob.glob(sys.argv[1] + '/race*'))
blocks = txt.split('WARNING: DATA RACE')[1:]
pure, harness = collections.Counter(), 0
for b in blocks:
    parts = re.split(r'\n\n', b)
    acc = parts[:2]
    if any('verif/harness' in p or 'zzverif' in p or 'main.zz' in p or 'main.TestZZ' in p for p in acc):
        harness += 1
        continue
    tops = []
    for p in acc:
        m = re.search(r'(github\.com/arm-doe/sts/[^\s(]+)\(\)\n\s+(\S+:\d+)', p)
        tops.append((m.group(1).replace('github.com/arm-doe/sts/', '') + ' ' + m.group(2).split('/')[-1]) if m else '?')
    pure[' <-> '.join(sorted(tops))] += 1
print('reports: %d, with a harness frame in an access stack: %d, sts-only: %d' % (len(blocks), harness, sum(pure.values())))
for k, v in pure.most_common():
    print('%5d  %s' % (v, k))
