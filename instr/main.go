// instr: build-time instrumenter.  Rewrites os.* / filepath.Walk call sites in
// selected sts packages to the injected vfs package and emits a go build overlay.
//
// usage: instr -repo /repo -out <dir> -vfs <dir with vfs.go> [-inpkg <dir>]
package main

import (
	"bytes"
	"encoding/json"
	"flag"
	"fmt"
	"go/ast"
	"go/format"
	"go/parser"
	"go/token"
	"os"
	"path/filepath"
	"sort"
	"strconv"
	"strings"
)

var osFuncs = map[string]bool{
	"Rename": true, "Remove": true, "RemoveAll": true, "Create": true,
	"OpenFile": true, "Open": true, "WriteFile": true, "ReadFile": true,
	"MkdirAll": true, "Stat": true, "Lstat": true, "ReadDir": true, "Chtimes": true,
}

const vfsImport = "github.com/arm-doe/sts/zzverif/vfs"
const vfsAlias = "zzvfs"

var packages = []string{"stage", "fileutil", "log", "cache", "store"}

func main() {
	repo := flag.String("repo", "/repo", "repository root")
	out := flag.String("out", "", "output directory")
	vfsDir := flag.String("vfs", "", "directory holding vfs.go")
	inpkg := flag.String("inpkg", "", "directory with <pkg>/*.go files to inject")
	flag.Parse()
	if *out == "" || *vfsDir == "" {
		fmt.Fprintln(os.Stderr, "need -out and -vfs")
		os.Exit(2)
	}
	replace := map[string]string{}
	sites := map[string]int{}
	total := 0
	for _, pkg := range packages {
		dir := filepath.Join(*repo, pkg)
		ents, err := os.ReadDir(dir)
		if err != nil {
			continue
		}
		for _, e := range ents {
			n := e.Name()
			if e.IsDir() || !strings.HasSuffix(n, ".go") || strings.HasSuffix(n, "_test.go") {
				continue
			}
			src := filepath.Join(dir, n)
			data, err := os.ReadFile(src)
			if err != nil {
				continue
			}
			res, cnt, err := rewrite(src, data)
			if err != nil || cnt == 0 {
				// unparsable or nothing to do: pass through unchanged
				continue
			}
			dst := filepath.Join(*out, "src", pkg, n)
			must(os.MkdirAll(filepath.Dir(dst), 0o755))
			must(os.WriteFile(dst, res, 0o644))
			replace[src] = dst
			sites[pkg+"/"+n] = cnt
			total += cnt
		}
	}
	// inject the vfs package
	vents, err := os.ReadDir(*vfsDir)
	must(err)
	for _, e := range vents {
		if strings.HasSuffix(e.Name(), ".go") {
			abs, _ := filepath.Abs(filepath.Join(*vfsDir, e.Name()))
			replace[filepath.Join(*repo, "zzverif", "vfs", e.Name())] = abs
		}
	}
	// inject white-box files
	if *inpkg != "" {
		pents, _ := os.ReadDir(*inpkg)
		for _, p := range pents {
			if !p.IsDir() {
				continue
			}
			fents, _ := os.ReadDir(filepath.Join(*inpkg, p.Name()))
			for _, f := range fents {
				if strings.HasSuffix(f.Name(), ".go") {
					abs, _ := filepath.Abs(filepath.Join(*inpkg, p.Name(), f.Name()))
					replace[filepath.Join(*repo, p.Name(), "zzverif_"+f.Name())] = abs
				}
			}
		}
	}
	ov := map[string]any{"Replace": replace}
	b, _ := json.MarshalIndent(ov, "", " ")
	must(os.WriteFile(filepath.Join(*out, "overlay.json"), b, 0o644))
	keys := make([]string, 0, len(sites))
	for k := range sites {
		keys = append(keys, k)
	}
	sort.Strings(keys)
	rep := map[string]any{"total_sites": total, "sites": sites}
	rb, _ := json.Marshal(rep)
	must(os.WriteFile(filepath.Join(*out, "instr.json"), rb, 0o644))
	fmt.Printf("instr: %d call sites rewritten in %d files\n", total, len(sites))
}

func must(err error) {
	if err != nil {
		fmt.Fprintln(os.Stderr, "instr:", err)
		os.Exit(2)
	}
}

func rewrite(name string, data []byte) ([]byte, int, error) {
	fset := token.NewFileSet()
	f, err := parser.ParseFile(fset, name, data, parser.ParseComments)
	if err != nil {
		return nil, 0, err
	}
	// which local names do "os" and "path/filepath" have in this file?
	osName, fpName := "", ""
	for _, im := range f.Imports {
		p, _ := strconv.Unquote(im.Path.Value)
		local := filepath.Base(p)
		if im.Name != nil {
			local = im.Name.Name
		}
		switch p {
		case "os":
			osName = local
		case "path/filepath":
			fpName = local
		case vfsImport:
			return nil, 0, nil // already instrumented
		}
	}
	if osName == "" && fpName == "" {
		return nil, 0, nil
	}
	cnt := 0
	ast.Inspect(f, func(n ast.Node) bool {
		sel, ok := n.(*ast.SelectorExpr)
		if !ok {
			return true
		}
		id, ok := sel.X.(*ast.Ident)
		if !ok || id.Obj != nil { // Obj != nil: a local object shadows the package name
			return true
		}
		if osName != "" && id.Name == osName && osFuncs[sel.Sel.Name] {
			id.Name = vfsAlias
			cnt++
		} else if fpName != "" && id.Name == fpName && sel.Sel.Name == "Walk" {
			id.Name = vfsAlias
			cnt++
		}
		return true
	})
	if cnt == 0 {
		return nil, 0, nil
	}
	// remaining uses of os / filepath
	uses := map[string]int{}
	ast.Inspect(f, func(n ast.Node) bool {
		if sel, ok := n.(*ast.SelectorExpr); ok {
			if id, ok := sel.X.(*ast.Ident); ok && id.Obj == nil {
				uses[id.Name]++
			}
		}
		return true
	})
	// rebuild import decls: drop now-unused os / filepath, add vfs
	for _, d := range f.Decls {
		gd, ok := d.(*ast.GenDecl)
		if !ok || gd.Tok != token.IMPORT {
			continue
		}
		var specs []ast.Spec
		for _, s := range gd.Specs {
			is := s.(*ast.ImportSpec)
			p, _ := strconv.Unquote(is.Path.Value)
			if p == "os" && uses[osName] == 0 {
				continue
			}
			if p == "path/filepath" && uses[fpName] == 0 {
				continue
			}
			specs = append(specs, s)
		}
		gd.Specs = specs
	}
	// add the vfs import as its own declaration after the package clause
	imp := &ast.GenDecl{Tok: token.IMPORT, Specs: []ast.Spec{&ast.ImportSpec{
		Name: ast.NewIdent(vfsAlias),
		Path: &ast.BasicLit{Kind: token.STRING, Value: strconv.Quote(vfsImport)},
	}}}
	// drop empty import decls
	var decls []ast.Decl
	decls = append(decls, imp)
	for _, d := range f.Decls {
		if gd, ok := d.(*ast.GenDecl); ok && gd.Tok == token.IMPORT && len(gd.Specs) == 0 {
			continue
		}
		decls = append(decls, d)
	}
	f.Decls = decls
	var buf bytes.Buffer
	if err := format.Node(&buf, fset, f); err != nil {
		return nil, 0, err
	}
	return buf.Bytes(), cnt, nil
}
