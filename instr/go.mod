module verif/instr

go 1.25.0
