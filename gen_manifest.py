#!/usr/bin/env python3
"""Generates MANIFEST.json from props.json (single source of truth for per-property settings)."""
import json, os
V = os.path.dirname(os.path.abspath(__file__))
props = json.load(open(os.path.join(V, "props.json")))
ids = [json.loads(l)["id"] for l in open(os.path.join(V, "properties.jsonl")) if l.strip()]
checks, na = [], []
for pid in ids:
    p = props.get(pid)
    if not p or not p.get("claimed"):
        na.append({"property_id": pid, "reason": (p or {}).get("reason", "check not built yet in this round; design in DESIGN.md section 4")})
        continue
    c = {
        "property_id": pid,
        "quick_cmd": "./check %s quick" % pid,
        "thorough_cmd": "./check %s thorough" % pid,
        "evidence_file": "/verif/evidence/%s.json" % pid,
        "replay_cmd_template": "./check %s --replay {path}" % pid,
        "engine": p.get("engine_name", "harness"),
        "level_claimed": {"category": p["level"], "text": p["level_text"], "design_ref": p.get("design_ref", "DESIGN.md section 4, " + pid)},
        "level_note": p["level_note"],
        "technique": p["technique"],
    }
    checks.append(c)
m = {
    "version": 1,
    "setup_cmd": "./setup.sh",
    "hooks": {
        "guard": "none in source: instrumentation is applied at build time with `go test -overlay` (os.* / filepath.Walk call sites of stage/fileutil/log/cache/store are redirected to an injected vfs package; white-box _test files are injected into package main, a three-function export file into package client). /repo sources are never edited by the machinery, so 'guard off' is the plain tree.",
        "enable": "./check builds instr/ -> overlay.json from /repo's working tree, then `go1.26 test -c -overlay overlay.json` of harness/ (module replace => /repo)",
        "baseline_off_cmd": "cd /repo && GOFLAGS=-mod=mod GOPROXY=off GOSUMDB=off GOTOOLCHAIN=local go1.26 test -json -vet=off -count=1 -timeout 25m ./...",
        "source_commits": [],
        "add_only": True,
    },
    "engines": [
        {"name": "harness", "path": "harness/", "serves_properties": [c["property_id"] for c in checks],
         "kind_free_text": "Go test binary: runs the real sts packages (instrumented by overlay) inside testing/synctest bubbles (virtual clock) or over loopback HTTP; boundary wrappers record events, per-property oracles judge them; driven by ./check in parallel child processes"},
    ],
    "checks": checks,
    "not_applicable": na,
    "notes": "All verdicts are 'held on the executions produced', never 'verified'. Genuine defects found are in known_findings.json (open = reported as KNOWN-FINDING, fixed = repaired by a 'fix:' commit in /repo). See DESIGN.md.",
}
json.dump(m, open(os.path.join(V, "MANIFEST.json"), "w"), indent=1)
print("MANIFEST.json: %d checks, %d not_applicable" % (len(checks), len(na)))
