package client

import "github.com/arm-doe/sts"

// White-box constructors injected by the verification overlay (never part of
// /repo): they let the harness feed the real resumed-file allocator and the
// real binnable wrapper to the queue and payload monitors.

// ZZNewRecoverFile builds the sender's resumed-file object exactly as recover() does.
func ZZNewRecoverFile(cached sts.Cached, prev string, left []*sts.ByteRange) sts.Recovered {
	return &recoverFile{Cached: cached, prev: prev, left: left}
}

// ZZNewBinnable wraps a popped chunk the way startBin does.
func ZZNewBinnable(s sts.Sendable, tag string, noPrev bool) sts.Binnable {
	return &binnable{Sendable: s, tag: tag, noPrev: noPrev}
}

// ZZRecover runs the sender's start-up recovery (partials request, comparison with
// the cache, recovery poll) and returns what it would queue.
func ZZRecover(b *Broker) ([]sts.Hashed, error) {
	return b.recover()
}
