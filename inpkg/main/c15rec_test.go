// C15, second sentence: "While a source's staging area is still recovering after
// a restart, its requests are answered 'unavailable' rather than processed".
//
// The leftovers of a crashed receiver instance are produced by a real
// stage.Stage in a scratch directory whose file-system operations stop at a
// PRNG-chosen mutating step (complete .part, .full, .wait, <final>.lck, files
// held for a predecessor, half-received files).  They are put in place for
//   - the server's start-up (serverApp.init finds the directory and recovers it), or
//   - a restart requested through the internal /restart route.
// Every intercepted file-system operation issued from inside Stage.Recover (its
// own goroutine or its validation workers; recognised by the call stack) stops
// recovery at that point, sends one request per validated route for that source
// over HTTP and lets recovery go on when they are answered.  So each scenario
// enumerates every externally distinguishable moment of that recovery.

package main

import (
	"encoding/json"
	"fmt"
	"math/rand"
	nethttp "net/http"
	"os"
	"path/filepath"
	"runtime"
	"strconv"
	"strings"
	"sync"
	"sync/atomic"
	"time"

	"bytes"
	"io"

	"github.com/arm-doe/sts"
	stslog "github.com/arm-doe/sts/log"
	"github.com/arm-doe/sts/marshal"
	"github.com/arm-doe/sts/stage"
	"github.com/arm-doe/sts/zzverif/vfs"
)

type zzPart struct {
	name, prev, hash string
	t                time.Time
	size, beg, end   int64
}

func (d *zzPart) GetName() string          { return d.name }
func (d *zzPart) GetRenamed() string       { return "" }
func (d *zzPart) GetPrev() string          { return d.prev }
func (d *zzPart) GetFileTime() time.Time   { return d.t }
func (d *zzPart) GetFileHash() string      { return d.hash }
func (d *zzPart) GetFileSize() int64       { return d.size }
func (d *zzPart) GetSendSize() int64       { return d.size }
func (d *zzPart) GetSlice() (int64, int64) { return d.beg, d.end }

type zzLeftFile struct {
	Name     string `json:"name"`
	Size     int    `json:"size"`
	Parts    int    `json:"parts"`
	Sent     int    `json:"parts_sent"`
	Held     bool   `json:"held_for_predecessor"`
	hash     string
	complete bool
}

type zzRecScenario struct {
	Kind      string        `json:"kind"` // startup | restart
	Source    string        `json:"source"`
	KillAt    int           `json:"scratch_instance_stopped_at_mutating_op"`
	Killed    bool          `json:"scratch_instance_stopped"`
	Files     []*zzLeftFile `json:"files"`
	Leftovers []string      `json:"stage_dir_when_recovery_starts"`
	Probed    int           `json:"recovery_steps_probed"`
	Ops       []string      `json:"recovery_steps"`
	Statuses  map[int]int   `json:"probe_statuses"`
}

type zzRecMon struct {
	e      *zzEnv
	mu     sync.Mutex
	armed  atomic.Value // string: source whose recovery is being watched
	up     chan struct{}
	sc     *zzRecScenario
	key    string
	dom    *vfs.Domain
	nprobe atomic.Int64
	lastOp atomic.Int64 // unix nanoseconds of the last step seen from inside Recover (scheduling only, never a verdict)
	// further sources with leftovers at start-up: their recoveries are held at their first
	// file-system step (gate) until the watched source's first step has been probed
	extras   []string
	gate     chan struct{}
	reached  map[string]bool
	gateOnce sync.Once
}

func zzInRecover() bool {
	var pcs [64]uintptr
	n := runtime.Callers(3, pcs[:])
	fr := runtime.CallersFrames(pcs[:n])
	for {
		f, more := fr.Next()
		if strings.Contains(f.Function, "stage.(*Stage).Recover") {
			return true
		}
		if !more {
			return false
		}
	}
}

func (m *zzRecMon) ofSource(p, src string) bool {
	if p == "" {
		return false
	}
	sep := string(os.PathSeparator)
	src = strings.ReplaceAll(src, "/", "--") // the directory name of a multi-level source
	return strings.Contains(p, sep+src+sep) || strings.HasSuffix(p, sep+src)
}

func (m *zzRecMon) request(route, src string, i int) *zzReq {
	name := fmt.Sprintf("probe/p%d.dat", i)
	data := []byte(fmt.Sprintf("probe-data-%d", i))
	var r *zzReq
	switch route {
	case "data":
		r = m.e.dataReq(src, m.key, "/", name, "", "", data)
	case "data-recovery":
		meta := zzDataMeta(name, "", "", data)
		r = &zzReq{Route: route, Method: "PUT", URL: "/data-recovery?v=1", Meta: meta, Headers: map[string]string{"X-STS-SrcName": src, "X-STS-Sep": "/"}}
		r.body = []byte(meta)
	case "validate":
		b, _ := json.Marshal([]map[string]any{{"n": name, "t": 1700000000}})
		r = &zzReq{Route: route, Method: "POST", URL: "/validate?v=1", Meta: string(b), Headers: map[string]string{"X-STS-SrcName": src, "X-STS-Sep": "/", "Content-Type": "application/json"}}
		r.body = b
	default:
		r = &zzReq{Route: "partials", Method: "GET", URL: "/partials?v=1", Headers: map[string]string{"X-STS-SrcName": src}}
	}
	if m.key != "" {
		r.Headers["X-STS-Key"] = m.key
	}
	return r
}

func (m *zzRecMon) doQuick(r *zzReq) int {
	req, err := nethttp.NewRequest(r.Method, fmt.Sprintf("http://127.0.0.1:%d%s", m.e.port, r.URL), bytes.NewReader(r.body))
	if err != nil {
		return -1
	}
	for k, v := range r.Headers {
		req.Header.Set(k, v)
	}
	cl := &nethttp.Client{Timeout: 3 * time.Second}
	resp, err := cl.Do(req)
	if err != nil {
		return -2
	}
	defer resp.Body.Close()
	_, _ = io.Copy(io.Discard, resp.Body)
	return resp.StatusCode
}

// zzRecPrefix is put before the names of the sources whose recovery is watched
var zzRecPrefix = ""

var zzRecRoutes = []string{"data", "data-recovery", "validate", "partials"}

func (m *zzRecMon) before(ev *vfs.Event) error {
	for _, x := range m.extras {
		if (m.ofSource(ev.Path, x) || m.ofSource(ev.Path2, x)) && zzInRecover() {
			m.mu.Lock()
			m.reached[x] = true
			m.mu.Unlock()
			<-m.gate // held at its first step inside Recover
			return nil
		}
	}
	src, _ := m.armed.Load().(string)
	if src == "" || !(m.ofSource(ev.Path, src) || m.ofSource(ev.Path2, src)) {
		return nil
	}
	if !zzInRecover() {
		return nil
	}
	<-m.up
	if len(m.extras) > 0 {
		m.gateOnce.Do(m.probeExtras)
	}
	m.lastOp.Store(time.Now().UnixNano())
	defer func() { m.lastOp.Store(time.Now().UnixNano()) }()
	m.mu.Lock()
	sc := m.sc
	step := sc.Probed
	sc.Probed++
	rel := strings.TrimPrefix(ev.Path, m.e.recv+string(os.PathSeparator))
	if len(sc.Ops) < 200 {
		sc.Ops = append(sc.Ops, ev.Op+" "+rel)
	}
	m.mu.Unlock()
	res := m.e.res
	for _, route := range zzRecRoutes {
		i := int(m.nprobe.Add(1))
		r := m.request(route, src, i)
		st := m.doQuick(r)
		r.Status = st
		m.mu.Lock()
		sc.Statuses[st]++
		res.Counters["recovery_probes"]++
		res.Counters[fmt.Sprintf("recovery_probe_status_%d", st)]++
		switch {
		case st == 503:
		case st < 0:
			res.Counters["recovery_probe_no_answer"]++
		default:
			if len(res.Violations) < 100 {
				res.Violations = append(res.Violations, zzViolation{Clause: "unavailable-while-recovering",
					Fingerprint: "C15/processed-during-recovery/" + route,
					Detail: fmt.Sprintf("%s recovery of source %q was stopped at its step %d (%s %s, issued from inside Stage.Recover); a %s request for that source sent at that moment was answered %d instead of 503",
						sc.Kind, src, step, ev.Op, rel, route, st),
					Scenario: sc, Index: step})
			}
			res.Counters["violations_total"]++
		}
		m.mu.Unlock()
	}
	return nil
}

// zzPlant runs a real Stage in a scratch directory, stops it at a chosen
// mutating file-system step and moves what it left behind into the directories
// the server uses for the given source.
func (m *zzRecMon) zzPlant(rng *rand.Rand, work, src string, sc *zzRecScenario) {
	scratch := filepath.Join(work, "scratch-"+strings.ReplaceAll(src, "/", "--"))
	sDir, fDir, lDir := filepath.Join(scratch, "stage"), filepath.Join(scratch, "final"), filepath.Join(scratch, "logs")
	for _, d := range []string{sDir, fDir, lDir} {
		_ = os.MkdirAll(d, 0o755)
	}
	dom := &vfs.Domain{Root: scratch + string(os.PathSeparator)}
	var muts, ops atomic.Int64
	var armed atomic.Bool
	sc.KillAt = rng.Intn(45)
	dom.Before = func(ev *vfs.Event) error {
		ops.Add(1)
		if armed.Load() && ev.Mut {
			if int(muts.Add(1)) == sc.KillAt+1 {
				sc.Killed = true
				dom.Kill()
			}
		}
		return nil
	}
	vfs.Register(dom)
	st := stage.New(src, sDir, fDir, stslog.NewFileIO(lDir, nil, nil, true), nil, nil)
	st.Recover()
	armed.Store(true)
	nf := 2 + rng.Intn(3)
	ft := time.Now().Add(-time.Hour).Truncate(time.Second)
	type job struct {
		d    *zzPart
		data []byte
	}
	var jobs []job
	for f := 0; f < nf; f++ {
		lf := &zzLeftFile{Name: fmt.Sprintf("d%d/left%d.dat", f%2, f), Size: 40 + rng.Intn(3000), Parts: 1 + rng.Intn(3)}
		data := make([]byte, lf.Size)
		rng.Read(data)
		lf.hash = zzMD5(data)
		lf.Sent = lf.Parts
		switch rng.Intn(5) {
		case 0:
			if lf.Parts > 1 {
				lf.Sent = lf.Parts - 1
			}
		case 1:
			lf.Held = true
		}
		lf.complete = lf.Sent == lf.Parts
		sc.Files = append(sc.Files, lf)
		step := lf.Size / lf.Parts
		for k := 0; k < lf.Sent; k++ {
			b, e := k*step, (k+1)*step
			if k == lf.Parts-1 {
				e = lf.Size
			}
			d := &zzPart{name: lf.Name, hash: lf.hash, t: ft, size: int64(lf.Size), beg: int64(b), end: int64(e)}
			if lf.Held {
				d.prev = "d0/never-sent-predecessor.dat"
			}
			jobs = append(jobs, job{d, data[b:e]})
		}
	}
	rng.Shuffle(len(jobs), func(i, j int) { jobs[i], jobs[j] = jobs[j], jobs[i] })
	done := make(chan struct{})
	go func() {
		defer close(done)
		for _, j := range jobs {
			st.Prepare([]sts.Binned{j.d})
			b, e := j.d.GetSlice()
			_ = st.Receive(&sts.Partial{Name: j.d.name, Prev: j.d.prev, Size: j.d.size, Time: marshal.NanoTime{Time: j.d.t}, Hash: j.d.hash, Source: src,
				Parts: []*sts.ByteRange{{Beg: b, End: e}}}, bytes.NewReader(j.data))
		}
	}()
	// quiescence: the sender finished or parked, and no file-system step for a while
	senderDone := false
	last, stable := int64(-1), 0
	for k := 0; k < 400 && stable < 8; k++ {
		time.Sleep(15 * time.Millisecond)
		select {
		case <-done:
			senderDone = true
		default:
		}
		if !senderDone && !dom.Dead() {
			stable = 0
			continue
		}
		if n := ops.Load(); n == last {
			stable++
		} else {
			last, stable = n, 0
		}
	}
	dom.Kill() // the instance is gone now in any case
	time.Sleep(20 * time.Millisecond)
	move := func(from, to string) {
		_ = os.MkdirAll(filepath.Dir(to), 0o755)
		_ = os.RemoveAll(to)
		_ = os.Rename(from, to)
	}
	mangled := strings.ReplaceAll(src, "/", "--")
	move(sDir, filepath.Join(m.e.recv, "stage", mangled))
	move(fDir, filepath.Join(m.e.recv, "final", mangled))
	move(lDir, filepath.Join(m.e.recv, "logs", "incoming_from", mangled))
	_ = filepath.Walk(filepath.Join(m.e.recv, "stage", mangled), func(p string, info os.FileInfo, err error) error {
		if err == nil && !info.IsDir() {
			sc.Leftovers = append(sc.Leftovers, strings.TrimPrefix(p, filepath.Join(m.e.recv, "stage", mangled)+string(os.PathSeparator)))
		}
		return nil
	})
}

// finish waits for the end of the watched recovery and evaluates the scenario
func (m *zzRecMon) finish(sc *zzRecScenario) {
	res := m.e.res
	src := sc.Source
	res.Evaluations++
	// The end of recovery is recognised by its file-system steps having stopped
	// (not by the ready flag alone, which is what is being checked).
	ended := false
	for k := 0; k < 600; k++ {
		st := m.doQuick(m.request("partials", src, 0))
		quiet := time.Since(time.Unix(0, m.lastOp.Load())) > 300*time.Millisecond
		m.mu.Lock()
		seen := sc.Probed > 0
		m.mu.Unlock()
		if st > 0 && st != 503 && quiet && (seen || k > 60) {
			ended = true
			break
		}
		time.Sleep(25 * time.Millisecond)
	}
	m.armed.Store("")
	if !ended {
		res.Inconclusive++
		res.InconcNotes = append(res.InconcNotes, fmt.Sprintf("%s recovery of %s: the source did not become available again within 15 s of real time", sc.Kind, src))
		return
	}
	// requests refused during recovery must have left nothing behind
	mangled := strings.ReplaceAll(src, "/", "--")
	for _, d := range []string{"stage", "final"} {
		_ = filepath.Walk(filepath.Join(m.e.recv, d, mangled), func(p string, info os.FileInfo, err error) error {
			if err == nil && strings.Contains(p, string(os.PathSeparator)+"probe"+string(os.PathSeparator)) && !info.IsDir() {
				m.mu.Lock()
				res.Violations = append(res.Violations, zzViolation{Clause: "unavailable-while-recovering", Fingerprint: "C15/recovery-request-had-effect",
					Detail: fmt.Sprintf("a request sent while %q was recovering left %s behind", src, strings.TrimPrefix(p, m.e.recv)), Scenario: sc})
				m.mu.Unlock()
			}
			return nil
		})
	}
	// afterwards the same kind of request is processed
	d := []byte("after-recovery-" + src)
	r := m.e.dataReq(src, m.key, "/", "after/a.dat", "", "", d)
	if st := m.doQuick(r); st == 200 {
		res.Counters["post_recovery_requests_processed"]++
	} else {
		res.Counters[fmt.Sprintf("post_recovery_status_%d", st)]++
	}
	// release what is held, so that nothing keeps polling the log in the background
	pd := []byte("predecessor-" + src)
	m.doQuick(m.e.dataReq(src, m.key, "/", "d0/never-sent-predecessor.dat", "", "", pd))
	deliv := 0
	for _, lf := range sc.Files {
		if !lf.complete {
			continue
		}
		for k := 0; k < 100; k++ {
			if b, err := os.ReadFile(filepath.Join(m.e.recv, "final", mangled, lf.Name)); err == nil && zzMD5(b) == lf.hash {
				deliv++
				break
			}
			time.Sleep(20 * time.Millisecond)
		}
	}
	res.Counters["recovered_files_delivered"] += int64(deliv)
	m.mu.Lock()
	res.Counters["recovery_steps_probed"] += int64(sc.Probed)
	if sc.Probed > 0 {
		kinds := map[string]bool{}
		for _, l := range sc.Leftovers {
			kinds[filepath.Ext(l)] = true
		}
		var ks []string
		for k := range kinds {
			ks = append(ks, k)
		}
		sortStrings(ks)
		res.Nontrivial[fmt.Sprintf("recovery|%s|%v|%d|%d", sc.Kind, ks, len(sc.Leftovers), sc.Probed)]++
		res.Counters["recoveries_watched_"+sc.Kind]++
	} else {
		res.Counters["recoveries_with_no_step_seen"]++
	}
	if len(res.Samples) < 5 {
		res.Samples = append(res.Samples, sc)
	}
	m.mu.Unlock()
}

func sortStrings(a []string) {
	for i := 1; i < len(a); i++ {
		for j := i; j > 0 && a[j] < a[j-1]; j-- {
			a[j], a[j-1] = a[j-1], a[j]
		}
	}
}

// probeExtras runs once, at the watched source's first recovery step after the server came
// up: every further source that had leftovers at start-up is either held inside its own
// recovery (at the gate) or has not begun it; either way a request for it must be
// answered 503.  (A source that is never seen to begin its recovery within 10 s although
// the watched one is already at work is reported only if it ANSWERS requests meanwhile.)
func (m *zzRecMon) probeExtras() {
	res := m.e.res
	deadline := time.Now().Add(10 * time.Second) // generous: only sources that never begin are of interest
	for time.Now().Before(deadline) {
		m.mu.Lock()
		n := len(m.reached)
		m.mu.Unlock()
		if n == len(m.extras) {
			break
		}
		time.Sleep(20 * time.Millisecond)
	}
	for _, x := range m.extras {
		m.mu.Lock()
		at := m.reached[x]
		m.mu.Unlock()
		for _, route := range zzRecRoutes {
			i := int(m.nprobe.Add(1))
			r := m.request(route, x, i)
			st := m.doQuick(r)
			r.Status = st
			res.Counters["recovery_probes_other_sources"]++
			if st == 503 || st < 0 {
				continue
			}
			fp, what := "processed-during-recovery-of-another-source/", "is held inside its start-up recovery"
			if !at {
				fp, what = "processed-before-start-up-recovery-began/", "has leftovers in its stage directory and has not begun its start-up recovery (while the recovery of "+m.sc.Source+" is already at work)"
			}
			m.mu.Lock()
			if len(res.Violations) < 100 {
				res.Violations = append(res.Violations, zzViolation{Clause: "unavailable-while-recovering", Fingerprint: "C15/" + fp + route,
					Detail: fmt.Sprintf("source %q %s; a %s request for it was answered %d instead of 503", x, what, route, st), Scenario: map[string]any{"sources_with_leftovers": append([]string{m.sc.Source}, m.extras...)}, Index: -2})
			}
			res.Counters["violations_total"]++
			m.mu.Unlock()
		}
	}
	close(m.gate)
}

// zzRecNew prepares the monitor and (before the server exists) the start-up scenario
func zzRecNew(e *zzEnv, rng *rand.Rand, work string) *zzRecMon {
	m := &zzRecMon{e: e, up: make(chan struct{}), key: e.attKey}
	m.armed.Store("")
	stslog.Init(filepath.Join(e.recv, "logs", "messages"), false, nil, nil) // as serverApp.init will
	m.dom = &vfs.Domain{Root: e.recv + string(os.PathSeparator)}
	m.dom.Before = m.before
	vfs.Register(m.dom)
	sc := &zzRecScenario{Kind: "startup", Source: zzRecPrefix + "rec0", Statuses: map[int]int{}}
	m.zzPlant(rng, work, zzRecPrefix+"rec0", sc)
	m.sc = sc
	// half of the instances come up with leftovers of 5-8 further sources as well
	m.gate = make(chan struct{})
	m.reached = map[string]bool{}
	if rng.Intn(2) == 0 {
		for k := 1; k <= 5+rng.Intn(4); k++ {
			x := zzRecPrefix + "xs" + strconv.Itoa(k)
			m.zzPlant(rng, work, x, &zzRecScenario{Kind: "startup-other", Source: x, Statuses: map[int]int{}})
			m.extras = append(m.extras, x)
		}
	} else {
		close(m.gate)
	}
	m.armed.Store(zzRecPrefix + "rec0")
	return m
}

// restart scenarios through the internal route
func (m *zzRecMon) restarts(rng *rand.Rand, work string, n int) {
	for j := 1; j <= n; j++ {
		src := zzRecPrefix + "rec" + strconv.Itoa(j)
		sc := &zzRecScenario{Kind: "restart", Source: src, Statuses: map[int]int{}}
		m.zzPlant(rng, work, src, sc)
		m.mu.Lock()
		m.sc = sc
		m.mu.Unlock()
		m.armed.Store(src)
		req, _ := nethttp.NewRequest("PUT", fmt.Sprintf("http://127.0.0.1:%d/restart", m.e.port+1), nil)
		req.Header.Set("X-STS-SrcName", src)
		cl := &nethttp.Client{Timeout: 3 * time.Second}
		resp, err := cl.Do(req)
		if err != nil {
			m.e.res.Inconclusive++
			m.e.res.InconcNotes = append(m.e.res.InconcNotes, "internal /restart request failed: "+err.Error())
			m.armed.Store("")
			continue
		}
		resp.Body.Close()
		// give the restart goroutine the chance to begin (Stop + Recover)
		time.Sleep(30 * time.Millisecond)
		m.finish(sc)
	}
}
