package main

// White-box monitors for C14 (confinement) and C15 (authorisation), injected
// into package main by the verification overlay (never part of /repo).  The
// server under test is the one main builds itself: serverApp.init() with its
// stage factory, source-name mangling and standardValidator, served by the real
// http.Server on loopback.  Results are written in the same JSON shape as the
// harness engine's, so the ./check driver can merge them.

import (
	"bytes"
	"crypto/md5"
	"encoding/hex"
	"encoding/json"
	"fmt"
	"hash/fnv"
	"io"
	"math/rand"
	"net"
	nethttp "net/http"
	"os"
	"path/filepath"
	"regexp"
	"sort"
	"strconv"
	"strings"
	"sync"
	"testing"
	"time"

	"github.com/arm-doe/sts"
	"github.com/arm-doe/sts/client"
	stslog "github.com/arm-doe/sts/log"
	"github.com/arm-doe/sts/zzverif/vfs"
)

type zzViolation struct {
	Clause      string `json:"clause"`
	Fingerprint string `json:"fingerprint"`
	Detail      string `json:"detail"`
	Scenario    any    `json:"scenario"`
	Index       int    `json:"index"`
}

type zzResult struct {
	Prop         string           `json:"prop"`
	Tier         string           `json:"tier"`
	Seed         int64            `json:"seed"`
	Evaluations  int              `json:"evaluations"`
	Nontrivial   map[string]int   `json:"nontrivial"`
	Samples      []any            `json:"samples"`
	Violations   []zzViolation    `json:"violations"`
	Inconclusive int              `json:"inconclusive"`
	InconcNotes  []string         `json:"inconclusive_notes"`
	Counters     map[string]int64 `json:"counters"`
	Completed    bool             `json:"completed"`
}

func zzMD5(b []byte) string { h := md5.Sum(b); return hex.EncodeToString(h[:]) }

type zzEntry struct {
	Size  int64
	MD5   string
	IsDir bool
	Mode  os.FileMode
}

func zzSnapshot(root string) map[string]zzEntry {
	out := map[string]zzEntry{}
	_ = filepath.Walk(root, func(p string, info os.FileInfo, err error) error {
		if err != nil {
			return nil
		}
		rel, _ := filepath.Rel(root, p)
		e := zzEntry{Size: info.Size(), IsDir: info.IsDir(), Mode: info.Mode()}
		if !info.IsDir() && info.Mode().IsRegular() {
			if b, err := os.ReadFile(p); err == nil {
				e.MD5 = zzMD5(b)
			}
		}
		out[rel] = e
		return nil
	})
	return out
}

// zzStable waits until two snapshots taken 25 ms apart agree (the receiver
// validates, logs and moves files asynchronously after it has answered)
func zzStable(root string) map[string]zzEntry {
	// also: nothing may be on its way through the receiver's pipeline (a complete body
	// awaiting validation, or a validated one awaiting its move) - on a loaded machine
	// those steps can be many snapshot intervals apart.  Files that stay in such a
	// state (held for a predecessor that never comes) stop counting after a while.
	pending := func(m map[string]zzEntry) string {
		var ks []string
		for k := range m {
			if strings.HasSuffix(k, ".full") || strings.HasSuffix(k, ".wait") || strings.HasSuffix(k, ".lck") {
				ks = append(ks, k)
			}
		}
		sort.Strings(ks)
		return strings.Join(ks, "|")
	}
	prev := zzSnapshot(root)
	lastPending, samePending := "", 0
	lastCalls := vfs.Calls()
	for i := 0; i < 600; i++ {
		time.Sleep(25 * time.Millisecond)
		cur := zzSnapshot(root)
		p := pending(cur)
		calls := vfs.Calls() // instrumented file-system calls of the receiver so far
		if p == lastPending && calls == lastCalls {
			samePending++
		} else {
			lastPending, lastCalls, samePending = p, calls, 0
		}
		if len(zzDiff(prev, cur)) == 0 && (p == "" || samePending >= 6) {
			return cur
		}
		prev = cur
	}
	return prev
}

func zzDiff(a, b map[string]zzEntry) []string {
	var out []string
	for k, va := range a {
		vb, ok := b[k]
		if !ok {
			out = append(out, "deleted "+k)
		} else if !va.IsDir && (va.MD5 != vb.MD5 || va.Size != vb.Size) {
			out = append(out, "modified "+k)
		}
	}
	for k := range b {
		if _, ok := a[k]; !ok {
			out = append(out, "created "+k)
		}
	}
	sort.Strings(out)
	return out
}

type zzReq struct {
	Route   string            `json:"route"`
	Method  string            `json:"method"`
	URL     string            `json:"url"`
	Headers map[string]string `json:"headers"`
	Meta    string            `json:"meta,omitempty"`
	Escapes bool              `json:"escaping"`
	Unauth  bool              `json:"unauthorised"`
	Field   string            `json:"field,omitempty"`
	Frag    string            `json:"fragment,omitempty"`
	Status  int               `json:"status"`
	Diff    []string          `json:"diff,omitempty"`
	body    []byte
}

type zzEnv struct {
	t       *testing.T
	res     *zzResult
	sandbox string
	recv    string
	port    int
	sources []string
	keys    []string
	att     string // authorised attacker source
	attKey  string
	vic     string
	tokens  map[string]string // token -> path (relative to sandbox) of the file holding it
	used    map[string]bool   // source names under which earlier requests of the attacker were accepted (their work may finish later)
	noServe bool              // the receiver has no serve directory configured
}

func (e *zzEnv) do(r *zzReq) (status int, body []byte) {
	req, err := nethttp.NewRequest(r.Method, fmt.Sprintf("http://127.0.0.1:%d%s", e.port, r.URL), bytes.NewReader(r.body))
	if err != nil {
		return -1, nil
	}
	for k, v := range r.Headers {
		req.Header.Set(k, v)
	}
	cl := &nethttp.Client{Timeout: 8 * time.Second}
	resp, err := cl.Do(req)
	if err != nil {
		return -2, nil
	}
	defer resp.Body.Close()
	body, _ = io.ReadAll(resp.Body)
	return resp.StatusCode, body
}

func zzDataMeta(name, rename, prev string, data []byte) string {
	m := []map[string]any{{"n": name, "r": rename, "p": prev, "f": zzMD5(data), "t": "1700000000+5", "s": len(data), "b": 0, "e": len(data)}}
	b, _ := json.Marshal(m)
	return string(b)
}

func (e *zzEnv) dataReq(source, key, sep, name, rename, prev string, data []byte) *zzReq {
	meta := zzDataMeta(name, rename, prev, data)
	r := &zzReq{Route: "data", Method: "PUT", URL: "/data?v=1", Meta: meta,
		Headers: map[string]string{"X-STS-SrcName": source, "X-STS-MetaLen": strconv.Itoa(len(meta))}}
	if sep != "-" {
		r.Headers["X-STS-Sep"] = sep
	}
	if key != "" {
		r.Headers["X-STS-Key"] = key
	}
	r.body = append([]byte(meta), data...)
	return r
}

var zzFrags = []string{"..", "../..", "../../..", "/abs/olute", "//double", "./dot", "..\\..\\win", "%2e%2e", "%252e%252e", "a//b", "", strings.Repeat("L", 300), "x.cmp", "x.part", "x.lck", "..%2f..", "....//", ".../...", "\x00nul",
	// segments that only LOOK harmless as sent: white space around "..", which a later normalisation could strip
	" ..", " ../..", "\t..", "\n../..", ".. ", " .. /.. ", "\u00a0.."}

// allowed roots (relative to the sandbox) for an authorised source
func (e *zzEnv) allowed(rel, source string) bool {
	source = strings.Trim(source, " \t") // a header value reaches the server without surrounding blanks
	mangled := strings.ReplaceAll(source, "/", "--")
	if mangled == "" || mangled == "." || mangled == ".." {
		mangled = "\x00no-such-dir"
	}
	for _, root := range []string{"recv/stage/" + mangled, "recv/final/" + mangled, "recv/logs/incoming_from/" + mangled, "recv/serve/" + mangled, "recv/logs/messages"} {
		if rel == root || strings.HasPrefix(rel, root+"/") {
			return true
		}
	}
	// parent directories of the allowed roots may be created on demand
	for _, p := range []string{"recv/stage", "recv/final", "recv/logs", "recv/logs/incoming_from", "recv/serve"} {
		if rel == p {
			return true
		}
	}
	return false
}

func zzIgnoreMessages(d []string) []string {
	var out []string
	for _, x := range d {
		if strings.Contains(x, "logs/messages") {
			continue
		}
		out = append(out, x)
	}
	return out
}

func TestZZVerif(t *testing.T) {
	prop := os.Getenv("VERIF_PROP")
	if prop == "" {
		t.Skip("VERIF_PROP not set")
	}
	tier := os.Getenv("VERIF_TIER")
	seed, _ := strconv.ParseInt(os.Getenv("VERIF_SEED"), 10, 64)
	batch, nbatch := 0, 1
	fmt.Sscanf(os.Getenv("VERIF_BATCH"), "%d/%d", &batch, &nbatch)
	work := os.Getenv("VERIF_WORKDIR")
	if work == "" {
		work = t.TempDir()
	}
	res := &zzResult{Prop: prop, Tier: tier, Seed: seed, Nontrivial: map[string]int{}, Counters: map[string]int64{}}
	out := os.Getenv("VERIF_OUT")
	flush := func() {
		if out != "" {
			b, _ := json.Marshal(res)
			_ = os.WriteFile(out+".tmp", b, 0o644)
			_ = os.Rename(out+".tmp", out)
		}
	}
	defer flush()
	h := fnv.New64a()
	fmt.Fprintf(h, "%s/%d/%d", prop, seed, batch)
	rng := rand.New(rand.NewSource(int64(h.Sum64())))

	if prop == "C19" {
		zzC19(t, res, rng, work, tier)
		res.Completed = true
		return
	}
	if prop == "C11" {
		zzC11(t, res, rng, work, tier)
		res.Completed = true
		return
	}
	// ---- sandbox
	env := &zzEnv{t: t, res: res, tokens: map[string]string{}}
	env.sandbox = filepath.Join(work, "sandbox")
	env.recv = filepath.Join(env.sandbox, "recv")
	for _, d := range []string{"stage", "final", "logs", "serve"} {
		_ = os.MkdirAll(filepath.Join(env.recv, d), 0o755)
	}
	decoy := func(rel string) {
		tok := fmt.Sprintf("TOKEN-%08x-%s", rng.Uint32(), strings.ReplaceAll(rel, "/", "_"))
		p := filepath.Join(env.sandbox, rel)
		_ = os.MkdirAll(filepath.Dir(p), 0o755)
		_ = os.WriteFile(p, []byte(tok), 0o644)
		env.tokens[tok] = rel
	}
	decoy("decoy.txt")
	decoy("etc/passwd")
	decoy("recv/decoy-inside-recv.txt")
	decoy("recv/serve/decoy-in-serve-root.txt")
	// configuration variant by batch
	variant := batch % 4
	env.att, env.vic = "att", "vic"
	env.attKey = ""
	conf := &sts.ServerConf{
		Dirs: &sts.ServerDirs{Log: filepath.Join(env.recv, "logs"), LogIn: filepath.Join(env.recv, "logs", "incoming_from"),
			LogMsg: filepath.Join(env.recv, "logs", "messages"), Stage: filepath.Join(env.recv, "stage"),
			Final: filepath.Join(env.recv, "final"), Serve: filepath.Join(env.recv, "serve")},
		Server: &sts.HTTPServer{Host: "127.0.0.1"},
	}
	switch variant {
	case 1:
		conf.Sources = []string{"att", "vic", "team/alpha"}
	case 2:
		conf.Sources = []string{"att", "vic"}
		conf.Keys = []string{"k-att", "k-other"}
		env.attKey = "k-att"
	case 3:
		conf.Keys = []string{"only-key"}
		env.attKey = "only-key"
	}
	if prop == "C14" && (batch/4)%2 == 1 {
		// a receiver without a serve directory, started from its home directory (the
		// directory that holds stage/, final/ and logs/): static requests have nothing to serve
		conf.Dirs.Serve = ""
		env.noServe = true
		if err := os.Chdir(env.recv); err != nil {
			res.Inconclusive++
			res.InconcNotes = append(res.InconcNotes, "chdir: "+err.Error())
			return
		}
	}
	nRestarts := 4
	if tier == "thorough" {
		nRestarts = 40
	}
	if prop == "C15" && (batch/4)%2 == 1 {
		zzRecPrefix = "site/" // multi-level source names: stored as site--recN on disk
	}
	if prop == "C15" && len(conf.Sources) > 0 {
		for j := 0; j <= nRestarts; j++ {
			conf.Sources = append(conf.Sources, zzRecPrefix+"rec"+strconv.Itoa(j))
		}
		for k := 1; k <= 9; k++ {
			conf.Sources = append(conf.Sources, zzRecPrefix+"xs"+strconv.Itoa(k))
		}
	}
	env.sources, env.keys = conf.Sources, conf.Keys
	// port
	for try := 0; try < 30; try++ {
		p := 28000 + batch*60 + try*2 + int(seed%5)*1000
		l, err := net.Listen("tcp", fmt.Sprintf("127.0.0.1:%d", p))
		if err != nil {
			continue
		}
		l.Close()
		l2, err := net.Listen("tcp", fmt.Sprintf(":%d", p+1))
		if err != nil {
			continue
		}
		l2.Close()
		env.port = p
		break
	}
	if env.port == 0 {
		res.Inconclusive++
		res.InconcNotes = append(res.InconcNotes, "no free port")
		return
	}
	conf.Server.Port = env.port
	var rec *zzRecMon
	if prop == "C15" {
		// leftovers of a crashed instance for source rec0, found by the server's start-up
		rec = zzRecNew(env, rng, work)
	}
	app := &serverApp{conf: conf}
	if err := app.init(); err != nil {
		res.Inconclusive++
		res.InconcNotes = append(res.InconcNotes, "serverApp.init: "+err.Error())
		return
	}
	stop := make(chan bool, 1)
	done := make(chan bool, 1)
	go app.server.Serve(stop, done)
	up := false
	for k := 0; k < 100; k++ {
		c, err := net.DialTimeout("tcp", fmt.Sprintf("127.0.0.1:%d", env.port), 200*time.Millisecond)
		if err == nil {
			c.Close()
			up = true
			break
		}
		time.Sleep(30 * time.Millisecond)
	}
	if !up {
		res.Inconclusive++
		res.InconcNotes = append(res.InconcNotes, "server did not come up")
		return
	}
	defer func() {
		stop <- true
		select {
		case <-done:
		case <-time.After(3 * time.Second):
		}
	}()
	if rec != nil {
		close(rec.up)
		rec.finish(rec.sc)
	}

	// ---- pre-existing content for the attacker's and the victim's source
	seedFile := func(source, key, name string) {
		data := []byte("content-of-" + source + "-" + name)
		r := env.dataReq(source, key, "/", name, "", "", data)
		st, _ := env.do(r)
		if st != 200 {
			res.InconcNotes = append(res.InconcNotes, fmt.Sprintf("seeding %s/%s answered %d", source, name, st))
		}
	}
	vicKey := env.attKey
	if variant == 2 {
		vicKey = "k-other"
	}
	seedFile(env.att, env.attKey, "own/file1.dat")
	seedFile(env.vic, vicKey, "secret/plan.dat")
	env.tokens["content-of-"+env.vic+"-secret/plan.dat"] = "recv/final/" + env.vic + "/secret/plan.dat"
	// the receiver validates, logs and moves after it has answered: wait until the
	// seeded files have arrived in the final directory (however loaded the machine is)
	for k := 0; k < 600; k++ {
		_, e1 := os.Stat(filepath.Join(env.recv, "final", env.att, "own", "file1.dat"))
		_, e2 := os.Stat(filepath.Join(env.recv, "final", env.vic, "secret", "plan.dat"))
		if e1 == nil && e2 == nil {
			break
		}
		time.Sleep(50 * time.Millisecond)
	}
	time.Sleep(300 * time.Millisecond)
	for _, s := range []string{env.att, env.vic} {
		p := filepath.Join(env.recv, "serve", s, "pub", "note.txt")
		_ = os.MkdirAll(filepath.Dir(p), 0o755)
		tok := fmt.Sprintf("SERVE-%s-%08x", s, rng.Uint32())
		_ = os.WriteFile(p, []byte(tok), 0o644)
		if s == env.vic {
			env.tokens[tok] = "recv/serve/" + s + "/pub/note.txt"
		}
	}
	// a partly received file of the victim in staging
	{
		data := []byte("0123456789abcdefghij")
		meta := fmt.Sprintf(`[{"n":"staged/part.dat","r":"","p":"","f":"%s","t":"1700000000+0","s":40,"b":0,"e":20}]`, zzMD5(append(data, data...)))
		r := &zzReq{Route: "data", Method: "PUT", URL: "/data?v=1", Headers: map[string]string{"X-STS-SrcName": env.vic, "X-STS-MetaLen": strconv.Itoa(len(meta)), "X-STS-Sep": "/"}}
		if vicKey != "" {
			r.Headers["X-STS-Key"] = vicKey
		}
		r.body = append([]byte(meta), data...)
		env.do(r)
	}
	time.Sleep(200 * time.Millisecond)

	n := map[string][2]int{"C14": {1500, 20000}, "C15": {1200, 30000}}[prop]
	total := n[0]
	if tier == "thorough" {
		total = n[1]
	}
	if m, err := strconv.Atoi(os.Getenv("VERIF_MAXN")); err == nil && m > 0 && m < total {
		total = m
	}
	per := total / nbatch
	if per < 5 {
		per = 5
	}
	switch prop {
	case "C09":
		zzC09(env, rng, tier)
	case "C14":
		zzC14(env, rng, per, variant)
	case "C15":
		zzC15(env, rng, per, variant)
		rec.restarts(rng, work, nRestarts)
	}
	res.Completed = true
}

func (e *zzEnv) viol(idx int, clause, fp, detail string, r *zzReq) {
	if len(e.res.Violations) < 100 {
		e.res.Violations = append(e.res.Violations, zzViolation{Clause: clause, Fingerprint: e.res.Prop + "/" + fp, Detail: detail, Scenario: r, Index: idx})
	}
	e.res.Counters["violations_total"]++
}

func (e *zzEnv) leak(body []byte, allowedSource string) string {
	for tok, rel := range e.tokens {
		if bytes.Contains(body, []byte(tok)) && !e.allowed(rel, allowedSource) {
			return rel
		}
	}
	// a listing that names the victim's served file
	if n := e.vic + "/pub/note.txt"; bytes.Contains(body, []byte(`"`+n+`"`)) && !e.allowed("recv/serve/"+n, allowedSource) {
		return "recv/serve/" + n + " (its name, in a listing)"
	}
	return ""
}

// ---------------------------------------------------------------- C14

func zzC14(e *zzEnv, rng *rand.Rand, n int, variant int) {
	res := e.res
	src, key := e.att, e.attKey
	mk := func(base, frag string, where int) string {
		switch where {
		case 0:
			return frag + "/" + base
		case 1:
			return "sub/" + frag + "/" + base
		case 2:
			return frag
		default:
			return base + "/" + frag
		}
	}
	for i := 0; i < n; i++ {
		res.Evaluations++
		frag := zzFrags[rng.Intn(len(zzFrags))]
		where := rng.Intn(4)
		var r *zzReq
		field := ""
		data := []byte(fmt.Sprintf("attack-%d-%d", i, rng.Int63()))
		sep := []string{"/", "/", "\\", "-", "..", "", "//"}[rng.Intn(7)]
		if sep != "/" && sep != "" && rng.Intn(2) == 0 {
			// a traversal written with the separator the request announces
			frag = strings.ReplaceAll([]string{"../x", "../../x", "../../../x", "a/../../x"}[rng.Intn(4)], "/", sep)
		}
		kind := rng.Intn(11)
		if kind == 10 {
			kind = 11
		}
		if e.noServe && rng.Intn(2) == 0 {
			kind = 10
		}
		switch kind {
		case 11:
			// source names made of empty and dot segments only, or with such segments
			// around a real name: whatever they are normalised to must not be the serve
			// root or another source's directory
			field = "static.dot-source"
			s := []string{"./", "/", "./.", ".//", "/./", "//", "./" + e.att + "/..", e.att + "/.", "./" + e.att, e.att + "/", e.att + "//" + e.vic, "./" + e.vic}[rng.Intn(12)]
			pth := []string{e.vic + "/pub/note.txt", "", e.vic, "pub/note.txt", e.att + "/pub/note.txt", "decoy-in-serve-root.txt"}[rng.Intn(6)]
			method := []string{"GET", "GET", "DELETE"}[rng.Intn(3)]
			r = &zzReq{Route: "static", Method: method, URL: "/static/" + pth, Headers: map[string]string{"X-STS-SrcName": s}}
		case 10:
			// no serve directory is configured: whatever the source name and path, there
			// is nothing to list, read or delete - in particular not the receiver's own
			// directories relative to where it was started
			field = "static.no-serve-dir"
			s := []string{"final", "stage", "logs", "serve", e.att, e.vic, "final/" + e.vic, "logs/incoming_from"}[rng.Intn(8)]
			pth := []string{e.vic + "/secret/plan.dat", "", e.vic, "secret/plan.dat", e.vic + "/pub/note.txt", "incoming_from/" + e.vic, e.att + "/own/file1.dat", "pub/note.txt"}[rng.Intn(8)]
			method := []string{"GET", "GET", "DELETE"}[rng.Intn(3)]
			r = &zzReq{Route: "static", Method: method, URL: "/static/" + pth, Headers: map[string]string{"X-STS-SrcName": s}}
		case 0:
			field = "data.name"
			r = e.dataReq(src, key, sep, mk("n.dat", frag, where), "", "", data)
		case 1:
			field = "data.rename"
			r = e.dataReq(src, key, sep, fmt.Sprintf("ok/n%d.dat", i), mk("r.dat", frag, where), "", data)
		case 2:
			field = "data.prev"
			r = e.dataReq(src, key, sep, fmt.Sprintf("ok/p%d.dat", i), "", mk("p.dat", frag, where), data)
		case 3:
			field = "source"
			s := []string{frag, "../" + e.vic, e.att + "/../" + e.vic, e.vic + "/..", "att/../../../etc", "..", "/"}[rng.Intn(7)]
			r = e.dataReq(s, key, "/", fmt.Sprintf("ok/s%d.dat", i), "", "", data)
		case 4:
			field = "recovery.name"
			meta := zzDataMeta(mk("n.dat", frag, where), "", "", data)
			r = &zzReq{Route: "data-recovery", Method: "PUT", URL: "/data-recovery?v=1", Meta: meta, Headers: map[string]string{"X-STS-SrcName": src, "X-STS-Sep": sep}}
			r.body = []byte(meta)
		case 5:
			field = "validate.name"
			b, _ := json.Marshal([]map[string]any{{"n": mk("n.dat", frag, where), "t": 1700000000}})
			r = &zzReq{Route: "validate", Method: "POST", URL: "/validate?v=1", Meta: string(b), Headers: map[string]string{"X-STS-SrcName": src, "X-STS-Sep": sep, "Content-Type": "application/json"}}
			r.body = b
		case 6:
			field = "partials"
			r = &zzReq{Route: "partials", Method: "GET", URL: "/partials?v=1", Headers: map[string]string{"X-STS-SrcName": []string{src, "../" + e.vic, src + "/../" + e.vic}[rng.Intn(3)]}}
		case 7:
			field = "static.get"
			paths := []string{"../" + e.vic + "/pub/note.txt", "..%2f" + e.vic + "/pub/note.txt", "%2e%2e/" + e.vic + "/pub/note.txt", "pub/../../" + e.vic + "/pub/note.txt", "../decoy-in-serve-root.txt", "../../decoy-inside-recv.txt", "../../../decoy.txt", "//etc/passwd", "pub//..//..//" + e.vic, frag, "pub/" + frag, ""}
			r = &zzReq{Route: "static", Method: "GET", URL: "/static/" + paths[rng.Intn(len(paths))], Headers: map[string]string{"X-STS-SrcName": src}}
		case 8:
			// header names the attacker's own source, the query string another one (or the
			// serve root): authorisation and directory selection must agree on one of them
			field = "static.query-source"
			qs := []string{e.vic, ".", "..", e.vic + "/pub", "./" + e.vic}[rng.Intn(5)]
			pth := []string{"pub/note.txt", "", e.vic + "/pub/note.txt", "note.txt"}[rng.Intn(4)]
			method := []string{"GET", "GET", "DELETE"}[rng.Intn(3)]
			r = &zzReq{Route: "static", Method: method, URL: "/static/" + pth + "?source=" + qs, Headers: map[string]string{"X-STS-SrcName": src}}
		default:
			field = "static.delete"
			paths := []string{"../" + e.vic + "/pub/note.txt", "..%2f" + e.vic + "/pub/note.txt", "pub/../../" + e.vic + "/pub/note.txt", "../decoy-in-serve-root.txt", "../../../decoy.txt", "pub/" + frag}
			r = &zzReq{Route: "static", Method: "DELETE", URL: "/static/" + paths[rng.Intn(len(paths))], Headers: map[string]string{"X-STS-SrcName": src}}
		}
		if r.Headers["X-STS-Key"] == "" && key != "" {
			r.Headers["X-STS-Key"] = key
		}
		r.Field, r.Frag = field, frag
		before := zzStable(e.sandbox)
		st, body := e.do(r)
		after := zzStable(e.sandbox)
		r.Status = st
		diff := zzDiff(before, after)
		r.Diff = diff
		res.Counters["requests"]++
		res.Counters[fmt.Sprintf("status_%d", st)]++
		res.Counters["field_"+field]++
		// which source was this request authorised for?
		asSource := r.Headers["X-STS-SrcName"]
		for _, d := range diff {
			rel := strings.SplitN(d, " ", 2)[1]
			// the attacker's own directories may change at any time (its earlier
			// requests finish asynchronously); a request accepted under another source
			// name may touch that (mangled) source's directories
			if e.allowed(rel, e.att) || (st != 403 && st != 400 && asSource != "" && e.allowed(rel, asSource)) {
				continue
			}
			// work of an earlier accepted request (validation, log, move finish after the
			// answer, arbitrarily late on a loaded machine) under the source name it used
			late := false
			for src := range e.used {
				if src != e.vic && e.allowed(rel, src) {
					late = true
				}
			}
			if late {
				continue
			}
			e.viol(i, "changes-confined", "escape/"+field, fmt.Sprintf("%s %s (source %q, sep %q, meta %s) answered %d and %s, which is outside the directories of the source it was authorised for", r.Method, r.URL, asSource, r.Headers["X-STS-Sep"], r.Meta, st, d), r)
			break
		}
		if st != 403 && st != 400 && st > 0 && asSource != "" {
			if e.used == nil {
				e.used = map[string]bool{}
			}
			e.used[asSource] = true
		}
		// (paths with ".." are redirected by the mux to a cleaned URL outside /static/, which
		// answers 200 with nothing: only an answer with content counts for those)
		if e.noServe && r.Route == "static" && st >= 200 && st < 300 && (field == "static.no-serve-dir" || len(body) > 0) {
			e.viol(i, "nothing-served-without-serve-dir", "static-served-without-serve-dir/"+field, fmt.Sprintf("no serve directory is configured, yet %s %s as source %q was answered %d (%d bytes)", r.Method, r.URL, asSource, st, len(body)), r)
		}
		if lk := e.leak(body, asSource); lk != "" {
			e.viol(i, "no-disclosure", "disclosure/"+field, fmt.Sprintf("%s %s as source %q answered %d with the content of %s", r.Method, r.URL, asSource, st, lk), r)
		}
		if st >= 200 && st != 404 && st != 405 {
			res.Nontrivial[fmt.Sprintf("%s|%s|%d|%s", field, frag, where, sep)]++
		}
		if len(res.Samples) < 3 && st > 0 {
			res.Samples = append(res.Samples, r)
		}
	}
}

// ---------------------------------------------------------------- C15

func (e *zzEnv) authorised(source, key string) bool {
	if len(e.sources) > 0 {
		ok := source != ""
		for _, c := range source {
			if !(c >= 'a' && c <= 'z' || c >= '0' && c <= '9' || c == '.' || c == '-' || c == '/') {
				ok = false
			}
		}
		if !ok {
			return false
		}
		found := false
		for _, s := range e.sources {
			if s == source {
				found = true
			}
		}
		if !found {
			return false
		}
	}
	if len(e.keys) > 0 {
		found := false
		for _, k := range e.keys {
			if k == key {
				found = true
			}
		}
		if !found {
			return false
		}
	}
	return true
}

func zzC15(e *zzEnv, rng *rand.Rand, n int, variant int) {
	res := e.res
	srcs := []string{"att", "vic", "ATT", "Att", "", "att ", "att/", "team/alpha", "team", "nobody", "a.t", "att.*", ".*", "att\n", "vic--x", "att--vic"}
	keys := []string{"", "k-att", "k-other", "K-ATT", "only-key", "wrong", "k-att ", ".*"}
	for i := 0; i < n; i++ {
		res.Evaluations++
		source := srcs[rng.Intn(len(srcs))]
		key := keys[rng.Intn(len(keys))]
		inQuery := rng.Intn(3) == 0
		data := []byte(fmt.Sprintf("c15-%d-%d", i, rng.Int63()))
		var r *zzReq
		switch rng.Intn(6) {
		case 0:
			r = e.dataReq(source, key, "/", fmt.Sprintf("u/f%d.dat", i), "", "", data)
			if rng.Intn(3) == 0 { // name an existing file of the victim / attacker
				r = e.dataReq(source, key, "/", "secret/plan.dat", "", "", data)
			}
		case 1:
			meta := zzDataMeta("secret/plan.dat", "", "", data)
			r = &zzReq{Route: "data-recovery", Method: "PUT", URL: "/data-recovery?v=1", Meta: meta, Headers: map[string]string{"X-STS-SrcName": source, "X-STS-Sep": "/"}}
			r.body = []byte(meta)
		case 2:
			b, _ := json.Marshal([]map[string]any{{"n": "secret/plan.dat", "t": 1700000000}})
			r = &zzReq{Route: "validate", Method: "POST", URL: "/validate?v=1", Meta: string(b), Headers: map[string]string{"X-STS-SrcName": source, "X-STS-Sep": "/", "Content-Type": "application/json"}}
			r.body = b
		case 3:
			r = &zzReq{Route: "partials", Method: "GET", URL: "/partials?v=1", Headers: map[string]string{"X-STS-SrcName": source}}
		case 4:
			r = &zzReq{Route: "static", Method: "GET", URL: "/static/pub/note.txt", Headers: map[string]string{"X-STS-SrcName": source}}
		default:
			r = &zzReq{Route: "static", Method: "DELETE", URL: "/static/pub/note.txt", Headers: map[string]string{"X-STS-SrcName": source}}
		}
		if key != "" {
			r.Headers["X-STS-Key"] = key
		} else {
			delete(r.Headers, "X-STS-Key")
		}
		if inQuery {
			// source / key in the query string instead of the headers
			q := "source=" + strings.ReplaceAll(strings.ReplaceAll(source, " ", "%20"), "\n", "%0A") + "&key=" + strings.ReplaceAll(key, " ", "%20")
			if strings.Contains(r.URL, "?") {
				r.URL += "&" + q
			} else {
				r.URL += "?" + q
			}
			delete(r.Headers, "X-STS-SrcName")
			delete(r.Headers, "X-STS-Key")
		}
		if strings.ContainsAny(source, "\n") && !inQuery {
			continue // not a legal header value; the HTTP client refuses to send it
		}
		effSource, effKey := source, key
		if !inQuery {
			// HTTP header values are stripped of surrounding blanks by the protocol
			effSource, effKey = strings.TrimSpace(source), strings.TrimSpace(key)
		}
		ok := e.authorised(effSource, effKey)
		r.Unauth = !ok
		before := zzStable(e.recv)
		st, body := e.do(r)
		after := zzStable(e.recv)
		r.Status = st
		diff := zzIgnoreMessages(zzDiff(before, after))
		r.Diff = diff
		res.Counters["requests"]++
		res.Counters[fmt.Sprintf("status_%d", st)]++
		if ok {
			res.Counters["authorised_requests"]++
			continue
		}
		res.Counters["unauthorised_requests"]++
		want := 403
		if effSource == "" {
			want = 400
		}
		if st != want {
			e.viol(i, "refused", fmt.Sprintf("unauthorised-answered-%d/%s", st, r.Route), fmt.Sprintf("%s %s with source %q key %q (configured sources %v keys %v) answered %d, expected %d", r.Method, r.URL, source, key, e.sources, e.keys, st, want), r)
		}
		if len(diff) > 0 {
			e.viol(i, "no-effect", "unauthorised-had-effect/"+r.Route, fmt.Sprintf("%s %s with source %q key %q was unauthorised (answered %d) but changed the receiver: %v", r.Method, r.URL, source, key, st, diff), r)
		}
		for tok, rel := range e.tokens {
			if bytes.Contains(body, []byte(tok)) {
				e.viol(i, "no-effect", "unauthorised-disclosure/"+r.Route, fmt.Sprintf("unauthorised %s %s disclosed %s", r.Method, r.URL, rel), r)
			}
		}
		res.Nontrivial[fmt.Sprintf("%s|%q|%q|%v|%d", r.Route, source, key, inQuery, variant)]++
		if len(res.Samples) < 3 {
			res.Samples = append(res.Samples, r)
		}
	}
	// non-interference: what an authorised sender is told is the same with and
	// without unauthorised requests naming the same files in between
	script := func(source, key string, noise bool) []string {
		var log []string
		step := func(r *zzReq) {
			if key != "" {
				r.Headers["X-STS-Key"] = key
			}
			st, body := e.do(r)
			log = append(log, fmt.Sprintf("%s %d %s", r.Route, st, strings.ReplaceAll(string(body), source, "SRC")))
			if noise {
				for _, bad := range []string{"wrong", ""} {
					if e.authorised(source, bad) {
						continue
					}
					x := e.dataReq(source, bad, "/", "ni/a.dat", "", "", []byte("noise-noise"))
					e.do(x)
					b, _ := json.Marshal([]map[string]any{{"n": "ni/a.dat", "t": 1700000000}})
					y := &zzReq{Route: "validate", Method: "POST", URL: "/validate?v=1", Headers: map[string]string{"X-STS-SrcName": source, "X-STS-Key": bad, "X-STS-Sep": "/", "Content-Type": "application/json"}}
					y.body = b
					e.do(y)
				}
			}
		}
		d1 := []byte("non-interference-file-a")
		waitFor := func(p string) {
			// the receiver validates, logs and moves after it has answered: wait for the
			// file system state the next answers depend on (however loaded the machine is)
			for k := 0; k < 400; k++ {
				if _, err := os.Stat(p); err == nil {
					break
				}
				time.Sleep(25 * time.Millisecond)
			}
			time.Sleep(100 * time.Millisecond)
		}
		step(e.dataReq(source, key, "/", "ni/a.dat", "", "", d1))
		waitFor(filepath.Join(e.recv, "final", source, "ni", "a.dat"))
		meta := zzDataMeta("ni/a.dat", "", "", d1)
		rr := &zzReq{Route: "data-recovery", Method: "PUT", URL: "/data-recovery?v=1", Headers: map[string]string{"X-STS-SrcName": source, "X-STS-Sep": "/"}}
		rr.body = []byte(meta)
		step(rr)
		b, _ := json.Marshal([]map[string]any{{"n": "ni/a.dat", "t": 1700000000}})
		vv := &zzReq{Route: "validate", Method: "POST", URL: "/validate?v=1", Headers: map[string]string{"X-STS-SrcName": source, "X-STS-Sep": "/", "Content-Type": "application/json"}}
		vv.body = b
		step(vv)
		step(&zzReq{Route: "partials", Method: "GET", URL: "/partials?v=1", Headers: map[string]string{"X-STS-SrcName": source}})
		// state that lives in the running receiver: a file validated and HELD for a
		// predecessor that never comes, and a half-received file
		d2 := []byte("non-interference-file-b-held")
		step(e.dataReq(source, key, "/", "ni/b.dat", "", "ni/never-sent.dat", d2))
		waitFor(filepath.Join(e.recv, "stage", source, "ni", "b.dat.wait"))
		d3 := []byte("non-interference-file-c-first-half|second-half-never-sent")
		half := 36
		m3 := fmt.Sprintf(`[{"n":"ni/c.dat","r":"","p":"","f":"%s","t":"1700000000+5","s":%d,"b":0,"e":%d}]`, zzMD5(d3), len(d3), half)
		c3 := &zzReq{Route: "data", Method: "PUT", URL: "/data?v=1", Headers: map[string]string{"X-STS-SrcName": source, "X-STS-MetaLen": strconv.Itoa(len(m3)), "X-STS-Sep": "/"}}
		c3.body = append([]byte(m3), d3[:half]...)
		step(c3)
		b2, _ := json.Marshal([]map[string]any{{"n": "ni/a.dat", "t": 1700000000}, {"n": "ni/b.dat", "t": 1700000000}, {"n": "ni/c.dat", "t": 1700000000}})
		v2 := &zzReq{Route: "validate", Method: "POST", URL: "/validate?v=1", Headers: map[string]string{"X-STS-SrcName": source, "X-STS-Sep": "/", "Content-Type": "application/json"}}
		v2.body = b2
		step(v2)
		r3 := &zzReq{Route: "data-recovery", Method: "PUT", URL: "/data-recovery?v=1", Headers: map[string]string{"X-STS-SrcName": source, "X-STS-Sep": "/"}}
		r3.body = []byte(m3)
		step(r3)
		step(&zzReq{Route: "partials", Method: "GET", URL: "/partials?v=1", Headers: map[string]string{"X-STS-SrcName": source}})
		v3 := &zzReq{Route: "validate", Method: "POST", URL: "/validate?v=1", Headers: map[string]string{"X-STS-SrcName": source, "X-STS-Sep": "/", "Content-Type": "application/json"}}
		v3.body = b2
		step(v3)
		return log
	}
	if len(e.sources) == 0 && len(e.keys) > 0 {
		a := script("nia", e.attKey, false)
		b := script("nib", e.attKey, true)
		res.Counters["non_interference_scripts"]++
		if fmt.Sprint(a) != fmt.Sprint(b) {
			e.viol(-1, "non-interference", "authorised-answers-differ", fmt.Sprintf("authorised script alone: %v; interleaved with unauthorised requests: %v", a, b), nil)
		}
	}
}

// ---------------------------------------------------------------- C19 (wiring)

// zzC19: the running sender applies each tag's settings to exactly the files
// whose names match that tag's pattern, and the default tag's to all others.
// A clientApp is built by its own init() from a generated source configuration;
// the tag the running pieces apply to a name is read from the Broker's Tagger,
// its tag table (delete / in-order) and from the store's ignore list (non-HTTP
// tags), and compared with "first tag whose pattern matches the name".
func zzC19(t *testing.T, res *zzResult, rng *rand.Rand, work, tier string) {
	stslog.Init(filepath.Join(work, "messages"), false, nil, nil)
	n := 60
	if tier == "thorough" {
		n = 1500
	}
	if m, err := strconv.Atoi(os.Getenv("VERIF_MAXN")); err == nil && m > 0 && m < n {
		n = m
	}
	viol := func(idx int, clause, fp, detail string, sc any) {
		if len(res.Violations) < 100 {
			res.Violations = append(res.Violations, zzViolation{Clause: clause, Fingerprint: "C19/" + fp, Detail: detail, Scenario: sc, Index: idx})
		}
		res.Counters["violations_total"]++
	}
	// two sources, the second inheriting the first one's ignore list: what each running
	// sender ignores is its own configuration's business (1-8 ignore patterns, each
	// source with a non-HTTP tag of its own)
	for k := 1; k <= 8; k++ {
		res.Evaluations++
		var ign []string
		for j := 0; j < k; j++ {
			ign = append(ign, fmt.Sprintf(`\.ign%d$`, j))
		}
		mkSrc := func(name, disk string, withIgnore bool) map[string]any {
			m := map[string]any{"name": name, "out-dir": filepath.Join(work, "out-"+name), "log-dir": filepath.Join(work, "log-"+name), "threads": 1,
				"target": map[string]any{"name": "t", "http-host": "127.0.0.1:1"},
				"tags":   []map[string]any{{"pattern": "DEFAULT", "method": "http"}, {"pattern": "^" + disk + "/", "method": "disk"}}}
			if withIgnore {
				m["ignore"] = ign
			}
			return m
		}
		b, _ := json.Marshal(map[string]any{"sources": []any{mkSrc("one", "adisk", true), mkSrc("two", "bdisk", false)}})
		cconf := &sts.ClientConf{}
		if err := json.Unmarshal(b, cconf); err != nil || len(cconf.Sources) != 2 {
			res.Inconclusive++
			continue
		}
		var apps []*clientApp
		okInit := true
		for _, sc := range cconf.Sources {
			app := &clientApp{conf: sc, dirCache: filepath.Join(work, "cache-"+sc.Name)}
			_ = os.MkdirAll(app.dirCache, 0o755)
			if err := app.init(); err != nil {
				okInit = false
				res.InconcNotes = append(res.InconcNotes, "clientApp.init: "+err.Error())
				break
			}
			apps = append(apps, app)
		}
		if !okInit {
			res.Inconclusive++
			continue
		}
		for ai, want := range []map[string]bool{{"adisk/x.dat": true, "bdisk/x.dat": false, "plain.dat": false, "q.ign0": true}, {"adisk/x.dat": false, "bdisk/x.dat": true, "plain.dat": false, "q.ign0": true}} {
			for name, w := range want {
				if got := apps[ai].broker.Conf.Store.ShouldIgnore(zzFile{name: name}); got != w {
					viol(-k, "method-applied", "ignore-list-of-one-source-changed-by-another", fmt.Sprintf("source %d of 2 (second inherits the first one's %d ignore patterns; disk tags ^adisk/ and ^bdisk/): after both senders were set up, %q ignored = %v, its own configuration says %v", ai+1, k, name, got, w), map[string]any{"ignore_patterns": k})
				}
			}
		}
		res.Counters["two_source_wirings"]++
	}
	// (some patterns match the TEXT of other patterns - "dir" matches "^dir/sub/" - as a
	// catch-all listed after specific rules does; a group can fall back to its tag's text)
	pats := []string{`^prio/`, `^slow\.`, `\.raw$`, `\.(nc|cdf)$`, `^dir/sub/`, `_b1\.`, `^x`, `dir`, `prio`, `sgp`, `^sgp.*\.raw$`, `^sgp/raw/`}
	names := []string{"prio/a.001.dat", "prio/sub/b.raw", "slow.20200101.nc", "slowly.dat", "dir/sub/c.cdf", "dir/d.raw", "e_b1.20.nc", "x.dat", "xs/y.dat", "plain", "plain.dat", "dir/sub/deep/z.b1.raw", "q.raw", "nodots/file",
		"sgp/raw/README", "sgpmetE13.00.20240101.raw", "sgp.x.raw", "sgp/raw/data.bin", "dir/sub/readme", "prio/nodot", "dir/readme"}
	for i := 0; i < n; i++ {
		res.Evaluations++
		ntags := 1 + rng.Intn(4)
		type tagSpec struct {
			Pattern  string `json:"pattern"`
			Priority int    `json:"priority"`
			Order    string `json:"order"`
			Delete   bool   `json:"delete"`
			Method   string `json:"method"`
		}
		var tags []tagSpec
		// (a method that is not given: the DEFAULT tag's, and without one there, http)
		tags = append(tags, tagSpec{Pattern: "DEFAULT", Priority: rng.Intn(3), Order: []string{"fifo", "none"}[rng.Intn(2)], Delete: rng.Intn(2) == 0, Method: []string{"http", ""}[rng.Intn(2)]})
		perm := rng.Perm(len(pats))
		if rng.Intn(3) == 0 {
			// "specific rules first, catch-all last": the catch-all's pattern also matches the specific rule's text
			pair := [][2]string{{`^sgp.*\.raw$`, `sgp`}, {`^sgp/raw/`, `sgp`}, {`^dir/sub/`, `dir`}, {`^prio/`, `prio`}}[rng.Intn(4)]
			ntags = 3 + rng.Intn(2)
			var first []int
			for _, want := range pair {
				for k, pt := range pats {
					if pt == want {
						first = append(first, k)
					}
				}
			}
			rest := []int{}
			for _, k := range perm {
				if k != first[0] && k != first[1] {
					rest = append(rest, k)
				}
			}
			perm = append(first, rest...)
		}
		for j := 1; j < ntags; j++ {
			tags = append(tags, tagSpec{Pattern: pats[perm[j-1]], Priority: 1 + rng.Intn(5), Order: []string{"fifo", "lifo", "none"}[rng.Intn(3)], Delete: rng.Intn(2) == 0, Method: []string{"http", "", "disk"}[rng.Intn(3)]})
		}
		var tj []map[string]any
		for _, tg := range tags {
			m := map[string]any{"pattern": tg.Pattern, "priority": tg.Priority, "order": tg.Order, "delete": fmt.Sprint(tg.Delete)}
			if tg.Method != "" {
				m["method"] = tg.Method
			}
			tj = append(tj, m)
		}
		// effective methods
		for j := range tags {
			if tags[j].Method == "" {
				tags[j].Method = tags[0].Method
			}
			if tags[j].Method == "" {
				tags[j].Method = "http"
			}
		}
		src := map[string]any{"name": "s", "out-dir": filepath.Join(work, "out"), "log-dir": filepath.Join(work, "log"), "threads": 2,
			"target": map[string]any{"name": "t", "http-host": "127.0.0.1:1"}, "tags": tj}
		if rng.Intn(3) == 0 {
			src["group-by"] = []string{`^([^/]+)/`, `^([a-z]+)`, `.`}[rng.Intn(3)] // "." is what a managed client is given
		}
		// parsed the way the program parses it: as a source of the OUT section, so that
		// options a tag omits are filled in from the DEFAULT tag
		b, _ := json.Marshal(map[string]any{"sources": []any{src}})
		cconf := &sts.ClientConf{}
		if err := json.Unmarshal(b, cconf); err != nil || len(cconf.Sources) != 1 {
			res.Inconclusive++
			continue
		}
		conf := cconf.Sources[0]
		app := &clientApp{conf: conf, dirCache: filepath.Join(work, "cache")}
		_ = os.MkdirAll(app.dirCache, 0o755)
		if err := app.init(); err != nil {
			res.Inconclusive++
			res.InconcNotes = append(res.InconcNotes, "clientApp.init: "+err.Error())
			continue
		}
		bc := app.broker.Conf
		sc := map[string]any{"tags": tags, "tags_as_written": tj, "group_by": src["group-by"]}
		for _, name := range names {
			// reference: first tag (after the default) whose pattern matches the NAME
			want := 0
			for j := 1; j < len(tags); j++ {
				if ok, _ := regexpMatch(tags[j].Pattern, name); ok {
					want = j
					break
				}
			}
			gotName := bc.Tagger(name)
			got := 0
			for j := 1; j < len(tags); j++ {
				if gotName == tags[j].Pattern {
					got = j
				}
			}
			res.Counters["names_checked"]++
			// what the sender's construction (tags per GROUP) gives: the group is the
			// group-by capture, or - when that is empty or the whole name - the tag found
			// for the name; the tag is the first one that IS the group or matches it
			byGroup := func(g string) int {
				for j := 1; j < len(tags); j++ {
					if tags[j].Pattern == g {
						return j
					}
					if ok, _ := regexpMatch(tags[j].Pattern, g); ok {
						return j
					}
				}
				return 0
			}
			group := ""
			if m := app.conf.GroupBy.FindStringSubmatch(name); len(m) > 1 && m[1] != "" && m[1] != name {
				group = m[1]
			} else if j := byGroup(name); j > 0 {
				group = tags[j].Pattern
			}
			wantByGroup := byGroup(group)
			if got != want {
				fp := "tag-lookup-mismatch"
				if got == wantByGroup {
					// known: the look-up goes through the file's GROUP, not its name
					fp = "tag-looked-up-by-group-not-name"
				}
				viol(i, "tag-applies-to-matching-names", fp, fmt.Sprintf("%q: the running sender applies tag %q, but the first tag whose pattern matches the name is %q (tags %v, group-by %v)", name, tags[got].Pattern, tags[want].Pattern, tags, src["group-by"]), sc)
				continue
			}
			// the tag's delete / order settings as the Broker will apply them
			for _, ft := range bc.Tags {
				if ft.Name == gotName || (gotName == "" && ft.Name == "") {
					if ft.Delete != tags[want].Delete {
						viol(i, "tag-settings-applied", "delete-setting", fmt.Sprintf("%q: delete=%v applied, tag %q says %v", name, ft.Delete, tags[want].Pattern, tags[want].Delete), sc)
					}
					break
				}
			}
			// non-HTTP tags: the file must be ignored by the store, HTTP tags must not
			f := zzFile{name: name}
			ign := bc.Store.ShouldIgnore(f)
			if tags[want].Method != "http" && !ign {
				viol(i, "method-applied", "non-http-tag-not-ignored", fmt.Sprintf("%q matches tag %q with method %q but is not ignored by the store", name, tags[want].Pattern, tags[want].Method), sc)
			}
			if tags[want].Method == "http" && ign {
				// known: ignored because a LATER non-http tag's pattern matches too (the first
				// matching tag should win); anything else is not that finding
				later := false
				for j := 1; j < len(tags); j++ {
					if j != want && tags[j].Method != "http" {
						if ok, _ := regexpMatch(tags[j].Pattern, name); ok {
							later = true
						}
					}
				}
				if !later {
					viol(i, "method-applied", "http-tag-ignored", fmt.Sprintf("%q matches tag %q, whose method is http (given, inherited from DEFAULT, or by default), and no tag with another method matches it - yet the store ignores it (tags as written: %v)", name, tags[want].Pattern, tj), sc)
					continue
				}
				viol(i, "method-applied", "http-tag-ignored-by-later-non-http-tag", fmt.Sprintf("%q matches tag %q (http) first but is ignored by the store", name, tags[want].Pattern), sc)
			}
		}
		app.destroy()
		res.Nontrivial[fmt.Sprintf("%v|%v", tags, src["group-by"])]++
		if len(res.Samples) < 2 {
			res.Samples = append(res.Samples, sc)
		}
	}
}

type zzFile struct{ name string }

func (f zzFile) GetPath() string    { return "/x/" + f.name }
func (f zzFile) GetName() string    { return f.name }
func (f zzFile) GetSize() int64     { return 1 }
func (f zzFile) GetTime() time.Time { return time.Unix(1700000000, 0) }
func (f zzFile) GetMeta() []byte    { return nil }

func regexpMatch(p, s string) (bool, error) { return regexp.MatchString(p, s) }

// ---------------------------------------------------------------- C11 (wiring)

type zzQFile struct {
	name string
	size int64
	hash string
	t    time.Time
}

func (f *zzQFile) GetPath() string    { return "/x/" + f.name }
func (f *zzQFile) GetName() string    { return f.name }
func (f *zzQFile) GetSize() int64     { return f.size }
func (f *zzQFile) GetTime() time.Time { return f.t }
func (f *zzQFile) GetMeta() []byte    { return nil }
func (f *zzQFile) GetHash() string    { return f.hash }
func (f *zzQFile) IsDone() bool       { return false }

// zzC11: the chunk sizes the program itself wires into the sender's queue.  A clientApp is
// built by its own init() from a generated source configuration (request size, tags with
// and without a chunk size); plain and RESUMED files (the client's own resumed-file type)
// are pushed into the queue it built and popped until it is empty.  Oracle: every chunk
// is non-empty and no longer than the tag's chunk size - the request size when the tag has
// none -, the chunks of a file tile exactly the bytes to send (the whole file, or the
// missing ranges of a resumed one), and the queue drains.
func zzC11(t *testing.T, res *zzResult, rng *rand.Rand, work, tier string) {
	stslog.Init(filepath.Join(work, "messages"), false, nil, nil)
	n := 40
	if tier == "thorough" {
		n = 1000
	}
	viol := func(idx int, clause, fp, detail string, sc any) {
		if len(res.Violations) < 100 {
			res.Violations = append(res.Violations, zzViolation{Clause: clause, Fingerprint: "C11/" + fp, Detail: detail, Scenario: sc, Index: idx})
		}
		res.Counters["violations_total"]++
	}
	for i := 0; i < n; i++ {
		res.Evaluations++
		bin := int64(64 << uint(rng.Intn(7))) // 64 B .. 4 KiB
		chunkOf := map[string]int64{}
		mk := func(pattern string) map[string]any {
			m := map[string]any{"pattern": pattern, "priority": 1, "order": []string{"fifo", "none", "alpha"}[rng.Intn(3)], "method": "http"}
			switch rng.Intn(3) {
			case 0: // no chunk size: the request size applies
				chunkOf[pattern] = bin
			case 1:
				cs := int64(16 << uint(rng.Intn(6)))
				m["chunk-size"] = fmt.Sprintf("%dB", cs)
				chunkOf[pattern] = cs
			default:
				cs := bin * int64(1+rng.Intn(3))
				m["chunk-size"] = fmt.Sprintf("%dB", cs)
				chunkOf[pattern] = cs
			}
			return m
		}
		tj := []map[string]any{mk("DEFAULT")}
		if rng.Intn(2) == 0 {
			tj = append(tj, mk(`^big/`))
		}
		src := map[string]any{"name": "s", "out-dir": filepath.Join(work, "out"), "log-dir": filepath.Join(work, "log"), "threads": 1,
			"bin-size": fmt.Sprintf("%dB", bin), "target": map[string]any{"name": "t", "http-host": "127.0.0.1:1"}, "tags": tj}
		b, _ := json.Marshal(src)
		conf := &sts.SourceConf{}
		if err := json.Unmarshal(b, conf); err != nil {
			res.Inconclusive++
			res.InconcNotes = append(res.InconcNotes, "configuration not accepted: "+err.Error())
			continue
		}
		app := &clientApp{conf: conf, dirCache: filepath.Join(work, "cache")}
		_ = os.MkdirAll(app.dirCache, 0o755)
		if err := app.init(); err != nil {
			res.Inconclusive++
			res.InconcNotes = append(res.InconcNotes, "clientApp.init: "+err.Error())
			continue
		}
		q := app.broker.Conf.Queue
		type want struct {
			ranges [][2]int64
			chunk  int64
		}
		wants := map[string]*want{}
		var batch []sts.Hashed
		nf := 1 + rng.Intn(4)
		for f := 0; f < nf; f++ {
			name := fmt.Sprintf("%sf%02d.dat", []string{"", "big/", "g/"}[rng.Intn(3)], f)
			size := int64(1 + rng.Intn(int(bin)*5))
			qf := &zzQFile{name: name, size: size, hash: fmt.Sprintf("h%d", f), t: time.Unix(1700000000+int64(f), 0)}
			tag := "DEFAULT"
			if strings.HasPrefix(name, "big/") && len(tj) > 1 {
				tag = `^big/`
			}
			w := &want{chunk: chunkOf[tag]}
			if rng.Intn(2) == 0 {
				// resumed: 1-3 missing ranges
				var left []*sts.ByteRange
				pos := int64(0)
				for k := 0; k < 1+rng.Intn(3) && pos < size; k++ {
					bg := pos + rng.Int63n(size-pos)
					ln := 1 + rng.Int63n(size-bg)
					left = append(left, &sts.ByteRange{Beg: bg, End: bg + ln})
					w.ranges = append(w.ranges, [2]int64{bg, bg + ln})
					pos = bg + ln + 1
				}
				batch = append(batch, client.ZZNewRecoverFile(qf, "", left))
			} else {
				w.ranges = [][2]int64{{0, size}}
				batch = append(batch, qf)
			}
			wants[name] = w
		}
		q.Push(batch)
		got := map[string][][2]int64{}
		sc := map[string]any{"bin_size": bin, "tags": tj, "files": wants}
		drained := false
		for k := 0; k < 20000; k++ {
			s := q.Pop()
			if s == nil {
				drained = true
				break
			}
			off, ln := s.GetSlice()
			res.Counters["chunks_popped"]++
			w := wants[s.GetName()]
			if w == nil {
				continue
			}
			if ln < 1 {
				viol(i, "chunk-nonempty", "wired-empty-chunk", fmt.Sprintf("the queue built by the program handed out an empty chunk of %s at %d (request size %d, tag chunk size %d)", s.GetName(), off, bin, w.chunk), sc)
				break
			}
			if ln > w.chunk {
				viol(i, "chunk-within-size", "wired-chunk-too-long", fmt.Sprintf("chunk [%d,%d) of %s is longer than the chunk size %d that applies (request size %d)", off, off+ln, s.GetName(), w.chunk, bin), sc)
			}
			got[s.GetName()] = append(got[s.GetName()], [2]int64{off, off + ln})
		}
		if !drained {
			viol(i, "queue-drains", "wired-queue-never-empty", fmt.Sprintf("after 20000 pops the queue built by the program still hands out chunks (request size %d)", bin), sc)
			continue
		}
		for name, w := range wants {
			flat := [][2]int64{}
			gs := got[name]
			sort.Slice(gs, func(a, b int) bool { return gs[a][0] < gs[b][0] })
			for _, g := range gs {
				if len(flat) > 0 && flat[len(flat)-1][1] == g[0] {
					flat[len(flat)-1][1] = g[1]
				} else {
					flat = append(flat, g)
				}
			}
			wf := [][2]int64{}
			for _, r := range w.ranges {
				if len(wf) > 0 && wf[len(wf)-1][1] == r[0] {
					wf[len(wf)-1][1] = r[1]
				} else {
					wf = append(wf, r)
				}
			}
			if fmt.Sprint(flat) != fmt.Sprint(wf) {
				viol(i, "exact-cover", "wired-cover", fmt.Sprintf("%s: chunks cover %v, to be sent %v", name, flat, wf), sc)
			}
		}
		res.Nontrivial[fmt.Sprintf("%d|%v|%d", bin, chunkOf, nf)]++
	}
}

// zzC09 - C09 at the HTTP boundary: "every part whose reception was acknowledged stays on
// record ... even when parts of one file arrive concurrently on several connections", here
// for a source the receiver has never heard of: the first parts of its first file arrive at
// the same moment on K connections.  Oracle: once every request has been answered, each
// part that was answered 200 is in the receiver's listing of partly received files (same
// hash), unless the file has been completed and delivered.
func zzC09(e *zzEnv, rng *rand.Rand, tier string) {
	res := e.res
	rounds := 40
	if tier == "thorough" {
		rounds = 150
	}
	if len(e.sources) > 0 {
		rounds = 1 // only one configured source has never been used: team/alpha
	}
	for i := 0; i < rounds; i++ {
		res.Evaluations++
		source := fmt.Sprintf("nc%d-%d", i, rng.Intn(1000))
		if len(e.sources) > 0 {
			source = "team/alpha"
		}
		k := 2 + rng.Intn(7)
		l := 1 + rng.Intn(3000)
		whole := rng.Intn(3) != 0 // all parts (the file completes) or all but one (it stays partial)
		data := make([]byte, k*l)
		for j := range data {
			data[j] = byte(rng.Intn(256))
		}
		name := fmt.Sprintf("burst/f%d.dat", i)
		hash := zzMD5(data)
		type sent struct {
			B, E   int
			Status int
		}
		parts := make([]*sent, 0, k)
		for j := 0; j < k; j++ {
			if !whole && j == k-1 {
				break
			}
			parts = append(parts, &sent{B: j * l, E: (j + 1) * l})
		}
		start := make(chan struct{})
		var wg sync.WaitGroup
		for _, pt := range parts {
			wg.Add(1)
			go func(pt *sent) {
				defer wg.Done()
				meta := fmt.Sprintf(`[{"n":%q,"r":"","p":"","f":%q,"t":"1700000000+0","s":%d,"b":%d,"e":%d}]`, name, hash, len(data), pt.B, pt.E)
				r := &zzReq{Route: "data", Method: "PUT", URL: "/data?v=1", Headers: map[string]string{"X-STS-SrcName": source, "X-STS-MetaLen": strconv.Itoa(len(meta)), "X-STS-Sep": "/"}}
				if e.attKey != "" {
					r.Headers["X-STS-Key"] = e.attKey
				}
				r.body = append([]byte(meta), data[pt.B:pt.E]...)
				<-start
				pt.Status, _ = e.do(r)
			}(pt)
		}
		close(start)
		wg.Wait()
		acked := 0
		for _, pt := range parts {
			res.Counters[fmt.Sprintf("burst_status_%d", pt.Status)]++
			if pt.Status == 200 {
				acked++
			}
		}
		res.Counters["burst_parts_acknowledged"] += int64(acked)
		res.Counters["first_contact_bursts"]++
		if acked == 0 {
			continue
		}
		sc := map[string]any{"source": source, "name": name, "size": len(data), "parts": parts}
		mangled := strings.ReplaceAll(source, "/", "--")
		final := filepath.Join(e.recv, "final", mangled, filepath.FromSlash(name))
		decided := false
		for try := 0; try < 100 && !decided; try++ {
			if b, err := os.ReadFile(final); err == nil {
				decided = true
				res.Counters["burst_files_delivered"]++
				if !bytes.Equal(b, data) {
					e.viol(i, "complete-only-when-covered", "http-first-contact-delivered-other-bytes", fmt.Sprintf("%s of new source %s: delivered with content that differs from what was sent in %d concurrent parts", name, source, len(parts)), &zzReq{Route: "burst", Meta: fmt.Sprint(sc)})
				}
				break
			}
			lr := &zzReq{Route: "partials", Method: "GET", URL: "/partials?v=1", Headers: map[string]string{"X-STS-SrcName": source}}
			if e.attKey != "" {
				lr.Headers["X-STS-Key"] = e.attKey
			}
			st, body := e.do(lr)
			var listing []struct {
				Name  string `json:"path"`
				Hash  string `json:"hash"`
				Parts []struct {
					B int `json:"b"`
					E int `json:"e"`
				} `json:"parts"`
			}
			if st == 200 && json.Unmarshal(body, &listing) == nil {
				for _, f := range listing {
					if f.Name != name || f.Hash != hash {
						continue
					}
					// the file is on record: every acknowledged part must be there
					decided = true
					res.Counters["burst_files_listed"]++
					for _, pt := range parts {
						if pt.Status != 200 {
							continue
						}
						have := false
						for _, r := range f.Parts {
							if r.B <= pt.B && pt.E <= r.E {
								have = true
							}
						}
						if !have {
							e.viol(i, "acknowledged-parts-stay-on-record", "http-first-contact-ack-dropped", fmt.Sprintf("%s of new source %s: part [%d,%d) was answered 200 (one of %d parts sent at the same moment on separate connections, first contact of that source) but the receiver's listing holds only %v", name, source, pt.B, pt.E, len(parts), f.Parts), &zzReq{Route: "burst", Meta: fmt.Sprint(sc)})
							break
						}
					}
				}
			}
			if !decided {
				time.Sleep(50 * time.Millisecond)
			}
		}
		if !decided {
			res.Inconclusive++
			res.InconcNotes = append(res.InconcNotes, fmt.Sprintf("burst %d: %s neither delivered nor listed after 5 s", i, name))
		}
		res.Nontrivial[fmt.Sprintf("burst|k=%d|whole=%v|acked=%d", len(parts), whole, acked)]++
		if len(res.Samples) < 3 {
			res.Samples = append(res.Samples, &zzReq{Route: "burst", Meta: fmt.Sprint(sc)})
		}
	}
}
