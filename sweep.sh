#!/bin/sh
# usage: sweep.sh <tier> <seed>...   runs every claimed check once per seed, prints one line per run plus violations
T=$1; shift
for S in "$@"; do
  for P in C01 C02 C03 C04 C05 C06 C07 C08 C09 C10 C11 C12 C13 C14 C15 C16 C17 C18 C19 C20; do
    VERIF_SEED=$S ./check $P $T 2>&1 | grep -v "^KNOWN-FINDING" | grep "VIOLATION\|fingerprint=\| seed=\|note:" | cut -c1-300
  done
done
