// Package vfs is injected (by go build -overlay) into the sts module as
// github.com/arm-doe/sts/zzverif/vfs.  The instrumenter rewrites selected os.* /
// filepath.Walk call sites of the sts packages to the same-signature functions
// below.  With no domain registered every function is a direct call of the
// original, so behaviour on the happy path is unchanged.
//
// A Domain is a path prefix (one per simulated process instance) with optional
// Before/After callbacks.  Before may return an error (fault injection: the real
// operation is then skipped and the error returned) or never return (park = crash
// of that instance).  After sees the result.
package vfs

import (
	"io/fs"
	"os"
	"path/filepath"
	"strings"
	"sync"
	"sync/atomic"
	"time"
)

// Op names
const (
	OpRename    = "rename"
	OpRemove    = "remove"
	OpRemoveAll = "removeall"
	OpCreate    = "create"
	OpOpenFile  = "openfile"
	OpOpen      = "open"
	OpWriteFile = "writefile"
	OpReadFile  = "readfile"
	OpMkdirAll  = "mkdirall"
	OpStat      = "stat"
	OpLstat     = "lstat"
	OpReadDir   = "readdir"
	OpChtimes   = "chtimes"
	OpWalk      = "walk"
)

// Event describes one intercepted call
type Event struct {
	Op    string
	Path  string
	Path2 string // rename target
	Flag  int    // OpenFile flags
	Mut   bool   // mutating operation
}

// Domain is one interposition scope
type Domain struct {
	Root   string
	Before func(ev *Event) error
	After  func(ev *Event, err error)
	dead   atomic.Bool
}

// Kill marks the domain dead: every later call from any goroutine parks forever.
func (d *Domain) Kill() { d.dead.Store(true) }

// Dead reports whether Kill was called
func (d *Domain) Dead() bool { return d.dead.Load() }

var (
	mu      sync.RWMutex
	domains []*Domain
	nCalls  atomic.Int64
)

// Register adds a domain
func Register(d *Domain) {
	mu.Lock()
	defer mu.Unlock()
	domains = append(domains, d)
}

// Unregister removes a domain
func Unregister(d *Domain) {
	mu.Lock()
	defer mu.Unlock()
	for i, x := range domains {
		if x == d {
			domains = append(domains[:i:i], domains[i+1:]...)
			return
		}
	}
}

// Calls returns how many intercepted calls were made in this process (evidence
// that the instrumentation is live)
func Calls() int64 { return nCalls.Load() }

func find(path string) *Domain {
	mu.RLock()
	defer mu.RUnlock()
	var best *Domain
	for _, d := range domains {
		if strings.HasPrefix(path, d.Root) {
			if best == nil || len(d.Root) > len(best.Root) {
				best = d
			}
		}
	}
	return best
}

// Park blocks the calling goroutine forever (durably, in synctest terms)
func Park() {
	select {}
}

func before(ev *Event) (*Domain, error) {
	nCalls.Add(1)
	d := find(ev.Path)
	if d == nil && ev.Path2 != "" {
		d = find(ev.Path2)
	}
	if d == nil {
		return nil, nil
	}
	if d.dead.Load() {
		Park()
	}
	if d.Before != nil {
		if err := d.Before(ev); err != nil {
			return d, err
		}
		if d.dead.Load() {
			Park()
		}
	}
	return d, nil
}

func after(d *Domain, ev *Event, err error) {
	if d == nil {
		return
	}
	if d.dead.Load() {
		Park()
	}
	if d.After != nil {
		d.After(ev, err)
		if d.dead.Load() {
			Park()
		}
	}
}

func Rename(oldpath, newpath string) error {
	ev := &Event{Op: OpRename, Path: oldpath, Path2: newpath, Mut: true}
	d, err := before(ev)
	if err != nil {
		return err
	}
	err = os.Rename(oldpath, newpath)
	after(d, ev, err)
	return err
}

func Remove(name string) error {
	ev := &Event{Op: OpRemove, Path: name, Mut: true}
	d, err := before(ev)
	if err != nil {
		return err
	}
	err = os.Remove(name)
	after(d, ev, err)
	return err
}

func RemoveAll(name string) error {
	ev := &Event{Op: OpRemoveAll, Path: name, Mut: true}
	d, err := before(ev)
	if err != nil {
		return err
	}
	err = os.RemoveAll(name)
	after(d, ev, err)
	return err
}

func Create(name string) (*os.File, error) {
	ev := &Event{Op: OpCreate, Path: name, Mut: true}
	d, err := before(ev)
	if err != nil {
		return nil, err
	}
	f, err := os.Create(name)
	after(d, ev, err)
	return f, err
}

func OpenFile(name string, flag int, perm os.FileMode) (*os.File, error) {
	mut := flag&(os.O_WRONLY|os.O_RDWR|os.O_CREATE|os.O_TRUNC|os.O_APPEND) != 0
	ev := &Event{Op: OpOpenFile, Path: name, Flag: flag, Mut: mut}
	d, err := before(ev)
	if err != nil {
		return nil, err
	}
	f, err := os.OpenFile(name, flag, perm)
	after(d, ev, err)
	return f, err
}

func Open(name string) (*os.File, error) {
	ev := &Event{Op: OpOpen, Path: name}
	d, err := before(ev)
	if err != nil {
		return nil, err
	}
	f, err := os.Open(name)
	after(d, ev, err)
	return f, err
}

func WriteFile(name string, data []byte, perm os.FileMode) error {
	ev := &Event{Op: OpWriteFile, Path: name, Mut: true}
	d, err := before(ev)
	if err != nil {
		return err
	}
	err = os.WriteFile(name, data, perm)
	after(d, ev, err)
	return err
}

func ReadFile(name string) ([]byte, error) {
	ev := &Event{Op: OpReadFile, Path: name}
	d, err := before(ev)
	if err != nil {
		return nil, err
	}
	b, err := os.ReadFile(name)
	after(d, ev, err)
	return b, err
}

func MkdirAll(path string, perm os.FileMode) error {
	ev := &Event{Op: OpMkdirAll, Path: path, Mut: true}
	d, err := before(ev)
	if err != nil {
		return err
	}
	err = os.MkdirAll(path, perm)
	after(d, ev, err)
	return err
}

func Stat(name string) (os.FileInfo, error) {
	ev := &Event{Op: OpStat, Path: name}
	d, err := before(ev)
	if err != nil {
		return nil, err
	}
	fi, err := os.Stat(name)
	after(d, ev, err)
	return fi, err
}

func Lstat(name string) (os.FileInfo, error) {
	ev := &Event{Op: OpLstat, Path: name}
	d, err := before(ev)
	if err != nil {
		return nil, err
	}
	fi, err := os.Lstat(name)
	after(d, ev, err)
	return fi, err
}

func ReadDir(name string) ([]os.DirEntry, error) {
	ev := &Event{Op: OpReadDir, Path: name}
	d, err := before(ev)
	if err != nil {
		return nil, err
	}
	es, err := os.ReadDir(name)
	after(d, ev, err)
	return es, err
}

func Chtimes(name string, atime, mtime time.Time) error {
	ev := &Event{Op: OpChtimes, Path: name, Mut: true}
	d, err := before(ev)
	if err != nil {
		return err
	}
	err = os.Chtimes(name, atime, mtime)
	after(d, ev, err)
	return err
}

// Walk wraps filepath.Walk
func Walk(root string, fn filepath.WalkFunc) error {
	ev := &Event{Op: OpWalk, Path: root}
	d, err := before(ev)
	if err != nil {
		return err
	}
	err = filepath.Walk(root, fn)
	after(d, ev, err)
	return err
}

// RestampTree sets the modification time of every entry under root whose mtime
// lies in the future of `now` (by more than an hour) to now.  Inside a synctest
// bubble the clock is virtual (the harness starts it at 2021-01-01), while the
// kernel stamps files with real time (2026+); the harness calls this at boundary
// points to keep file ages coherent with the bubble clock.
func RestampTree(root string, now time.Time) int {
	n := 0
	limit := now.Add(time.Hour)
	_ = filepath.WalkDir(root, func(p string, de fs.DirEntry, err error) error {
		if err != nil {
			return nil
		}
		fi, err := de.Info()
		if err != nil {
			return nil
		}
		if fi.Mode()&os.ModeSymlink != 0 {
			return nil
		}
		if fi.ModTime().After(limit) {
			if os.Chtimes(p, now, now) == nil {
				n++
			}
		}
		return nil
	})
	return n
}
