#!/bin/sh
# Run once after a fresh restore (offline): warms the Go build cache for the
# engine binary and checks that the instrumented tree still builds.
set -e
cd "$(dirname "$0")"
export GOFLAGS=-mod=mod GOPROXY=off GOSUMDB=off GOTOOLCHAIN=local TZ=UTC
W=${VERIF_WORK:-/var/tmp/verif-work}/setup-$$
mkdir -p "$W"
trap 'rm -rf "$W"' EXIT
(cd instr && go1.26 build -o "$W/instr" .)
"$W/instr" -repo /repo -out "$W/ov" -vfs rt/vfs -inpkg inpkg
cp harness/go.mod "$W/go.mod"; cp /repo/go.sum "$W/go.sum"
(cd harness && go1.26 test -c -modfile="$W/go.mod" -overlay "$W/ov/overlay.json" -vet=off -o "$W/engine.test" .)
(cd harness && go1.26 test -c -race -modfile="$W/go.mod" -overlay "$W/ov/overlay.json" -vet=off -o "$W/engine.race.test" .)
echo "setup ok"
