package harness

import (
	"fmt"
	"math/rand"
	"os"
	"path/filepath"
	"runtime"
	"strings"
	"sync/atomic"
	"testing/synctest"
	"time"

	"github.com/arm-doe/sts"
	"github.com/arm-doe/sts/zzverif/vfs"
)

// C01 (receiver level) — version races.  A second version of a name (possibly
// damaged in transit) is received while the first one is at a chosen step of
// its validate / log / move pipeline.  The Stage's worker goroutine is held at
// that step by the instrumentation (a bounded burst of runtime.Gosched, no
// clock involved) while the harness delivers the other version; then the final
// directory, the delivery events and the receive log are checked.

type c01RaceScenario struct {
	Size1    int64  `json:"size_v1"`
	Size2    int64  `json:"size_v2"`
	Parts1   int    `json:"parts_v1"`
	Parts2   int    `json:"parts_v2"`
	Corrupt  string `json:"corrupt"` // none | v1 | v2
	StallOp  string `json:"stall_op"`
	StallSfx string `json:"stall_path_suffix"`
	Held     bool   `json:"v1_held_for_predecessor"`
	Resend   bool   `json:"resend_after"`
	Stalled  bool   `json:"stall_point_reached"`
	V2Parts  int    `json:"v2_parts_sent_before_restart,omitempty"` // held v1 + partly received v2 + receiver restart
	Restart  bool   `json:"receiver_restart,omitempty"`
}

func runC01Race(c *Ctx) {
	n := c.N(300, 6000)
	for i := 0; i < n; i++ {
		idx := 3_000_000 + i
		if !c.Mine(idx) {
			continue
		}
		rng := c.Rng(idx)
		sc := &c01RaceScenario{}
		dir := filepath.Join(c.Work, fmt.Sprintf("c01r-%d", idx))
		c.Guard(idx, sc, func() {
			bubble(c.T, func() { c01RaceRun(c, idx, rng, sc, dir) })
		})
		os.RemoveAll(dir)
	}
}

func c01RaceRun(c *Ctx, idx int, rng *rand.Rand, sc *c01RaceScenario, dir string) {
	res := c.Res
	res.Eval()
	viol := func(clause, fp, detail string) {
		res.Violate(Violation{Clause: clause, Fingerprint: "C01/" + fp, Detail: detail, Scenario: sc, Index: idx})
	}
	rs := newRecvSide(dir, false)
	defer rs.close()
	name := "r/f.dat"
	sc.Size1 = int64(1 + rng.Intn(4000))
	sc.Size2 = sc.Size1
	if rng.Intn(2) == 0 {
		sc.Size2 = int64(1 + rng.Intn(4000))
	}
	v1 := randBytes(rng, sc.Size1)
	v2 := randBytes(rng, sc.Size2)
	sc.Parts1, sc.Parts2 = 1+rng.Intn(3), 1+rng.Intn(3)
	sc.Corrupt = []string{"none", "none", "v2", "v2", "v1"}[rng.Intn(5)]
	sc.Held = rng.Intn(4) == 0
	sc.Resend = rng.Intn(2) == 0
	stalls := [][2]string{
		{vfs.OpOpen, ".full"},     // validation is reading the body
		{vfs.OpRename, ".full"},   // .full -> .wait
		{vfs.OpRename, ".wait"},   // .wait -> <final>.lck
		{vfs.OpRename, ".lck"},    // <final>.lck -> <final>
		{vfs.OpMkdirAll, "final"}, // target directory
		{vfs.OpOpenFile, "logs"},  // receive-log append
		{vfs.OpRemove, ".cmp"},    // companion removal after delivery
	}
	st := stalls[rng.Intn(len(stalls))]
	sc.StallOp, sc.StallSfx = st[0], st[1]
	var raceDone atomic.Bool
	var stalled atomic.Bool
	rs.Dom.Before = func(ev *vfs.Event) error {
		if stalled.Load() || ev.Op != sc.StallOp {
			return nil
		}
		match := strings.HasSuffix(ev.Path, sc.StallSfx)
		if sc.StallSfx == "final" {
			match = strings.Contains(ev.Path, string(os.PathSeparator)+"final"+string(os.PathSeparator))
		}
		if sc.StallSfx == "logs" {
			match = strings.Contains(ev.Path, string(os.PathSeparator)+"logs"+string(os.PathSeparator)) && ev.Mut
		}
		if sc.StallSfx == ".cmp" && ev.Op == vfs.OpRemove {
			match = strings.HasSuffix(ev.Path, ".cmp")
		}
		if !match {
			return nil
		}
		stalled.Store(true)
		for i := 0; i < 40000 && !raceDone.Load(); i++ {
			runtime.Gosched()
		}
		return nil
	}
	ftime := time.Now().Add(-time.Hour)
	tile := func(size int64, n int) []iv {
		var out []iv
		step := size / int64(n)
		if step == 0 {
			return []iv{{0, size}}
		}
		b := int64(0)
		for k := 0; k < n; k++ {
			e := b + step
			if k == n-1 {
				e = size
			}
			out = append(out, iv{b, e})
			b = e
		}
		return out
	}
	limit := -1 // how many parts of the next transmission arrive (-1: all)
	send := func(data []byte, hash string, parts int, corrupt bool, prev string) {
		tiles := tile(int64(len(data)), parts)
		if limit >= 0 && limit < len(tiles) {
			tiles = tiles[:limit]
		}
		fed := data
		if corrupt {
			fed = append([]byte{}, data...)
			fed[rng.Intn(len(fed))] ^= 0x21
		}
		for _, t := range tiles {
			d := &desc{Name: name, Prev: prev, Hash: hash, Size: int64(len(data)), Time: ftime, Beg: t.b, End: t.e, Send: int64(len(data))}
			rs.Stage.Prepare([]sts.Binned{d})
			_ = rs.Stage.Receive(d.partial("src"), &chunkyReader{data: fed[t.b:t.e], rng: rng, stop: -1})
		}
	}
	h1, h2 := md5hex(v1), md5hex(v2)
	prev := ""
	if sc.Held {
		prev = "r/pred.dat"
	}
	// version 1 arrives; its pipeline runs on the Stage's worker goroutines and stops at the stall point
	send(v1, h1, sc.Parts1, sc.Corrupt == "v1", prev)
	if sc.Held && sc.Parts2 > 1 && rng.Intn(2) == 0 {
		// version 1 is held for its predecessor; only some parts of version 2 arrive;
		// then the receiver is restarted (new Stage + Recover over the same directories)
		sc.Restart = true
		sc.V2Parts = 1 + rng.Intn(sc.Parts2-1)
		limit = sc.V2Parts
	}
	// ... and version 2 arrives while it is there
	send(v2, h2, sc.Parts2, sc.Corrupt == "v2", prev)
	limit = -1
	raceDone.Store(true)
	sc.Stalled = stalled.Load()
	synctest.Wait()
	time.Sleep(15 * time.Second)
	synctest.Wait()
	var before []delivered
	if sc.Restart {
		before = append(before, rs.Disp.Events()...)
		rs.restamp()
		rs.reboot(false)
		rs.Dom.Before = nil
		rs.Stage.Recover()
		synctest.Wait()
		time.Sleep(15 * time.Second)
		synctest.Wait()
	}
	if sc.Held {
		// release the predecessor
		pd := []byte("predecessor")
		d := &desc{Name: "r/pred.dat", Hash: md5hex(pd), Size: int64(len(pd)), Time: ftime, Beg: 0, End: int64(len(pd)), Send: int64(len(pd))}
		rs.Stage.Prepare([]sts.Binned{d})
		_ = rs.Stage.Receive(d.partial("src"), &chunkyReader{data: pd, rng: rng, stop: -1})
		synctest.Wait()
		time.Sleep(15 * time.Second)
		synctest.Wait()
	}
	if sc.Resend {
		// the sender reacts to a 'failed' / 'not found' answer by sending the newest version again, intact
		if code := rs.Stage.GetFileStatus(name, ftime); code == sts.ConfirmFailed || code == sts.ConfirmNone {
			send(v2, h2, sc.Parts2, false, prev)
			synctest.Wait()
			time.Sleep(15 * time.Second)
			synctest.Wait()
		}
	}
	// ---- oracle
	logged := map[string]bool{}
	rs.Log.inner.Parse(func(n, renamed, hash string, size int64, t time.Time) bool {
		logged[n+"|"+hash] = true
		return false
	}, time.Now().Add(-48*time.Hour), time.Now().Add(time.Hour))
	check := func(where string, content []byte) {
		m := md5hex(content)
		if m != h1 && m != h2 {
			viol("final-is-source-version", "race-final-not-a-version", fmt.Sprintf("%s: %s holds %d bytes (md5 %s) that are neither version 1 nor version 2 (corrupt=%s, stall %s %s)", where, name, len(content), m, sc.Corrupt, sc.StallOp, sc.StallSfx))
			return
		}
		if !logged[name+"|"+m] {
			viol("hash-logged", "race-delivered-under-other-hash", fmt.Sprintf("%s: %s holds the version with md5 %s but the receive log has no record (%s, that hash) (stall %s %s)", where, name, m, name, sc.StallOp, sc.StallSfx))
		}
	}
	if b, err := os.ReadFile(filepath.Join(rs.FinalDir, name)); err == nil {
		check("final directory", b)
	}
	for _, d := range append(before, rs.Disp.Events()...) {
		if d.Rel != name {
			continue
		}
		if d.MD5 != h1 && d.MD5 != h2 {
			viol("final-is-source-version", "race-delivered-not-a-version", fmt.Sprintf("delivery event #%d: %s md5 %s is neither version (corrupt=%s, stall %s %s)", d.Seq, name, d.MD5, sc.Corrupt, sc.StallOp, sc.StallSfx))
		} else if !logged[name+"|"+d.MD5] {
			viol("hash-logged", "race-delivered-under-other-hash", fmt.Sprintf("delivery event #%d: %s md5 %s has no log record with that hash (stall %s %s)", d.Seq, name, d.MD5, sc.StallOp, sc.StallSfx))
		}
	}
	if sc.Stalled {
		res.Count("stall_points_reached", 1)
		res.Count("stall_"+sc.StallOp+"_"+strings.TrimPrefix(sc.StallSfx, "."), 1)
		res.NonTrivial(fmt.Sprintf("race/%d/%d/%d/%d/%s/%s%s/%v", sc.Size1, sc.Size2, sc.Parts1, sc.Parts2, sc.Corrupt, sc.StallOp, sc.StallSfx, sc.Held))
	}
	res.Sample(sc)
}
