package harness

import (
	"fmt"
	"math/rand"
	"os"
	"path/filepath"
	"runtime"
	"strings"
	"sync/atomic"
	"testing/synctest"
	"time"

	"github.com/arm-doe/sts"
	"github.com/arm-doe/sts/zzverif/vfs"
)

// C01 (receiver level) — version races.  A second version of a name (possibly
// damaged in transit) is received while the first one is at a chosen step of
// its validate / log / move pipeline.  The Stage's worker goroutine is held at
// that step by the instrumentation (a bounded burst of runtime.Gosched, no
// clock involved) while the harness delivers the other version; then the final
// directory, the delivery events and the receive log are checked.

type c01RaceScenario struct {
	Size1    int64  `json:"size_v1"`
	Size2    int64  `json:"size_v2"`
	Parts1   int    `json:"parts_v1"`
	Parts2   int    `json:"parts_v2"`
	Corrupt  string `json:"corrupt"` // none | v1 | v2
	StallOp  string `json:"stall_op"`
	StallSfx string `json:"stall_path_suffix"`
	Held     bool   `json:"v1_held_for_predecessor"`
	Resend   bool   `json:"resend_after"`
	Stalled  bool   `json:"stall_point_reached"`
	V2Parts  int    `json:"v2_parts_sent_before_restart,omitempty"` // held v1 + partly received v2 + receiver restart
	Restart  bool   `json:"receiver_restart,omitempty"`
}

func runC01Race(c *Ctx) {
	n := c.N(300, 6000)
	for i := 0; i < n; i++ {
		idx := 3_000_000 + i
		if !c.Mine(idx) {
			continue
		}
		rng := c.Rng(idx)
		dir := filepath.Join(c.Work, fmt.Sprintf("c01r-%d", idx))
		if i%3 == 2 {
			cs := &c01CrashScenario{}
			c.Guard(idx, cs, func() {
				bubble(c.T, func() { c01CrashRun(c, "C01", idx, rng, cs, dir) })
			})
			os.RemoveAll(dir)
			continue
		}
		sc := &c01RaceScenario{}
		c.Guard(idx, sc, func() {
			bubble(c.T, func() { c01RaceRun(c, idx, rng, sc, dir) })
		})
		os.RemoveAll(dir)
	}
}

func c01RaceRun(c *Ctx, idx int, rng *rand.Rand, sc *c01RaceScenario, dir string) {
	res := c.Res
	res.Eval()
	viol := func(clause, fp, detail string) {
		res.Violate(Violation{Clause: clause, Fingerprint: "C01/" + fp, Detail: detail, Scenario: sc, Index: idx})
	}
	rs := newRecvSide(dir, false)
	defer rs.close()
	name := "r/f.dat"
	sc.Size1 = int64(1 + rng.Intn(4000))
	sc.Size2 = sc.Size1
	if rng.Intn(2) == 0 {
		sc.Size2 = int64(1 + rng.Intn(4000))
	}
	v1 := randBytes(rng, sc.Size1)
	v2 := randBytes(rng, sc.Size2)
	sc.Parts1, sc.Parts2 = 1+rng.Intn(3), 1+rng.Intn(3)
	sc.Corrupt = []string{"none", "none", "v2", "v2", "v1"}[rng.Intn(5)]
	sc.Held = rng.Intn(4) == 0
	sc.Resend = rng.Intn(2) == 0
	stalls := [][2]string{
		{vfs.OpOpen, ".full"},     // validation is reading the body
		{vfs.OpRename, ".full"},   // .full -> .wait
		{vfs.OpRename, ".wait"},   // .wait -> <final>.lck
		{vfs.OpRename, ".lck"},    // <final>.lck -> <final>
		{vfs.OpMkdirAll, "final"}, // target directory
		{vfs.OpOpenFile, "logs"},  // receive-log append
		{vfs.OpRemove, ".cmp"},    // companion removal after delivery
	}
	st := stalls[rng.Intn(len(stalls))]
	sc.StallOp, sc.StallSfx = st[0], st[1]
	var raceDone atomic.Bool
	var stalled atomic.Bool
	rs.Dom.Before = func(ev *vfs.Event) error {
		if stalled.Load() || ev.Op != sc.StallOp {
			return nil
		}
		match := strings.HasSuffix(ev.Path, sc.StallSfx)
		if sc.StallSfx == "final" {
			match = strings.Contains(ev.Path, string(os.PathSeparator)+"final"+string(os.PathSeparator))
		}
		if sc.StallSfx == "logs" {
			match = strings.Contains(ev.Path, string(os.PathSeparator)+"logs"+string(os.PathSeparator)) && ev.Mut
		}
		if sc.StallSfx == ".cmp" && ev.Op == vfs.OpRemove {
			match = strings.HasSuffix(ev.Path, ".cmp")
		}
		if !match {
			return nil
		}
		stalled.Store(true)
		for i := 0; i < 40000 && !raceDone.Load(); i++ {
			runtime.Gosched()
		}
		return nil
	}
	ftime := time.Now().Add(-time.Hour)
	tile := func(size int64, n int) []iv {
		var out []iv
		step := size / int64(n)
		if step == 0 {
			return []iv{{0, size}}
		}
		b := int64(0)
		for k := 0; k < n; k++ {
			e := b + step
			if k == n-1 {
				e = size
			}
			out = append(out, iv{b, e})
			b = e
		}
		return out
	}
	limit := -1 // how many parts of the next transmission arrive (-1: all)
	send := func(data []byte, hash string, parts int, corrupt bool, prev string) {
		tiles := tile(int64(len(data)), parts)
		if limit >= 0 && limit < len(tiles) {
			tiles = tiles[:limit]
		}
		fed := data
		if corrupt {
			fed = append([]byte{}, data...)
			fed[rng.Intn(len(fed))] ^= 0x21
		}
		for _, t := range tiles {
			d := &desc{Name: name, Prev: prev, Hash: hash, Size: int64(len(data)), Time: ftime, Beg: t.b, End: t.e, Send: int64(len(data))}
			rs.Stage.Prepare([]sts.Binned{d})
			_ = rs.Stage.Receive(d.partial("src"), &chunkyReader{data: fed[t.b:t.e], rng: rng, stop: -1})
		}
	}
	h1, h2 := md5hex(v1), md5hex(v2)
	prev := ""
	if sc.Held {
		prev = "r/pred.dat"
	}
	// version 1 arrives; its pipeline runs on the Stage's worker goroutines and stops at the stall point
	send(v1, h1, sc.Parts1, sc.Corrupt == "v1", prev)
	if sc.Held && sc.Parts2 > 1 && rng.Intn(2) == 0 {
		// version 1 is held for its predecessor; only some parts of version 2 arrive;
		// then the receiver is restarted (new Stage + Recover over the same directories)
		sc.Restart = true
		sc.V2Parts = 1 + rng.Intn(sc.Parts2-1)
		limit = sc.V2Parts
	}
	// ... and version 2 arrives while it is there
	send(v2, h2, sc.Parts2, sc.Corrupt == "v2", prev)
	limit = -1
	raceDone.Store(true)
	sc.Stalled = stalled.Load()
	synctest.Wait()
	time.Sleep(15 * time.Second)
	synctest.Wait()
	var before []delivered
	if sc.Restart {
		before = append(before, rs.Disp.Events()...)
		rs.restamp()
		rs.reboot(false)
		rs.Dom.Before = nil
		rs.Stage.Recover()
		synctest.Wait()
		time.Sleep(15 * time.Second)
		synctest.Wait()
	}
	if sc.Held {
		// release the predecessor
		pd := []byte("predecessor")
		d := &desc{Name: "r/pred.dat", Hash: md5hex(pd), Size: int64(len(pd)), Time: ftime, Beg: 0, End: int64(len(pd)), Send: int64(len(pd))}
		rs.Stage.Prepare([]sts.Binned{d})
		_ = rs.Stage.Receive(d.partial("src"), &chunkyReader{data: pd, rng: rng, stop: -1})
		synctest.Wait()
		time.Sleep(15 * time.Second)
		synctest.Wait()
	}
	if sc.Resend {
		// the sender reacts to a 'failed' / 'not found' answer by sending the newest version again, intact
		if code := rs.Stage.GetFileStatus(name, ftime); code == sts.ConfirmFailed || code == sts.ConfirmNone {
			send(v2, h2, sc.Parts2, false, prev)
			synctest.Wait()
			time.Sleep(15 * time.Second)
			synctest.Wait()
		}
	}
	// ---- oracle
	logged := map[string]bool{}
	rs.Log.inner.Parse(func(n, renamed, hash string, size int64, t time.Time) bool {
		logged[n+"|"+hash] = true
		return false
	}, time.Now().Add(-48*time.Hour), time.Now().Add(time.Hour))
	check := func(where string, content []byte) {
		m := md5hex(content)
		if m != h1 && m != h2 {
			viol("final-is-source-version", "race-final-not-a-version", fmt.Sprintf("%s: %s holds %d bytes (md5 %s) that are neither version 1 nor version 2 (corrupt=%s, stall %s %s)", where, name, len(content), m, sc.Corrupt, sc.StallOp, sc.StallSfx))
			return
		}
		if !logged[name+"|"+m] {
			viol("hash-logged", "race-delivered-under-other-hash", fmt.Sprintf("%s: %s holds the version with md5 %s but the receive log has no record (%s, that hash) (stall %s %s)", where, name, m, name, sc.StallOp, sc.StallSfx))
		}
	}
	if b, err := os.ReadFile(filepath.Join(rs.FinalDir, name)); err == nil {
		check("final directory", b)
	}
	for _, d := range append(before, rs.Disp.Events()...) {
		if d.Rel != name {
			continue
		}
		if d.MD5 != h1 && d.MD5 != h2 {
			viol("final-is-source-version", "race-delivered-not-a-version", fmt.Sprintf("delivery event #%d: %s md5 %s is neither version (corrupt=%s, stall %s %s)", d.Seq, name, d.MD5, sc.Corrupt, sc.StallOp, sc.StallSfx))
		} else if !logged[name+"|"+d.MD5] {
			viol("hash-logged", "race-delivered-under-other-hash", fmt.Sprintf("delivery event #%d: %s md5 %s has no log record with that hash (stall %s %s)", d.Seq, name, d.MD5, sc.StallOp, sc.StallSfx))
		}
	}
	if sc.Stalled {
		res.Count("stall_points_reached", 1)
		res.Count("stall_"+sc.StallOp+"_"+strings.TrimPrefix(sc.StallSfx, "."), 1)
		res.NonTrivial(fmt.Sprintf("race/%d/%d/%d/%d/%s/%s%s/%v", sc.Size1, sc.Size2, sc.Parts1, sc.Parts2, sc.Corrupt, sc.StallOp, sc.StallSfx, sc.Held))
	}
	res.Sample(sc)
}

// ---- version crash family: version 1 validated and held for its predecessor;
// version 2 (intact or damaged in transit) is sent completely; the receiver is
// crashed before the k-th mutating file-system operation counted from the start of
// version 2's transmission (create/truncate of the part file, companion writes and
// renames, .part->.full, .full->.wait, ...), or restarted after version 2 has gone
// through validation; then Recover, the predecessor arrives, the sender re-sends
// version 2 if it is told 'failed' / 'not found'.  Same oracle as the races.

type c01CrashScenario struct {
	Size1, Size2 int64
	Parts1       int    `json:"parts_v1"`
	Parts2       int    `json:"parts_v2"`
	CorruptV2    bool   `json:"v2_damaged_in_transit"`
	CrashAt      int    `json:"crash_before_kth_mutating_op_of_v2,omitempty"` // 0: no crash, plain restart afterwards
	CrashedAt    string `json:"crashed_at,omitempty"`
	StatusAfter  int    `json:"status_after_recovery"`
	Resent       bool   `json:"v2_resent"`
}

func c01CrashRun(c *Ctx, prop string, idx int, rng *rand.Rand, sc *c01CrashScenario, dir string) {
	res := c.Res
	res.Eval()
	viol := func(clause, fp, detail string) {
		res.Violate(Violation{Clause: clause, Fingerprint: prop + "/" + fp, Detail: detail, Scenario: sc, Index: idx})
	}
	rs := newRecvSide(dir, false)
	defer rs.close()
	name, pred := "r/f.dat", "r/pred.dat"
	sc.Size1 = int64(1 + rng.Intn(3000))
	sc.Size2 = sc.Size1
	if rng.Intn(2) == 0 {
		sc.Size2 = int64(1 + rng.Intn(3000))
	}
	v1, v2 := randBytes(rng, sc.Size1), randBytes(rng, sc.Size2)
	h1, h2 := md5hex(v1), md5hex(v2)
	sc.Parts1, sc.Parts2 = 1+rng.Intn(3), 1+rng.Intn(3)
	sc.CorruptV2 = rng.Intn(2) == 0
	if rng.Intn(5) != 0 {
		sc.CrashAt = 1 + rng.Intn(16)
	}
	ftime := time.Now().Add(-time.Hour)
	ftime2 := ftime
	if rng.Intn(3) == 0 {
		ftime2 = ftime.Add(-time.Duration(1+rng.Intn(50)) * time.Minute) // an older copy put back
	}
	tile := func(size int64, n int) []iv {
		step := size / int64(n)
		if step == 0 {
			return []iv{{0, size}}
		}
		var out []iv
		b := int64(0)
		for k := 0; k < n; k++ {
			e := b + step
			if k == n-1 {
				e = size
			}
			out = append(out, iv{b, e})
			b = e
		}
		return out
	}
	// send returns false when the receiver instance died under it
	send := func(data, fed []byte, hash string, parts int, ft time.Time) bool {
		for _, t := range tile(int64(len(data)), parts) {
			d := &desc{Name: name, Prev: pred, Hash: hash, Size: int64(len(data)), Time: ft, Beg: t.b, End: t.e, Send: int64(len(data))}
			_, died := serverCall(rs, func() error {
				rs.Stage.Prepare([]sts.Binned{d})
				return rs.Stage.Receive(d.partial("src"), &chunkyReader{data: fed[t.b:t.e], rng: rng, stop: -1})
			})
			if died {
				return false
			}
		}
		return true
	}
	settle := func() {
		synctest.Wait()
		time.Sleep(15 * time.Second)
		synctest.Wait()
	}
	send(v1, v1, h1, sc.Parts1, ftime)
	settle()
	if _, err := os.Stat(filepath.Join(rs.StageDir, name+".wait")); err != nil {
		res.Inconc("version 1 is not held as .wait")
		return
	}
	var before []delivered
	// version 2, with a crash point
	var muts atomic.Int64
	dom := rs.Dom
	r0 := rs
	if sc.CrashAt > 0 {
		dom.Before = func(ev *vfs.Event) error {
			if ev.Mut && int(muts.Add(1)) == sc.CrashAt {
				sc.CrashedAt = ev.Op + " " + filepath.Base(ev.Path)
				r0.crash()
			}
			return nil
		}
	}
	fed2 := v2
	if sc.CorruptV2 {
		fed2 = append([]byte{}, v2...)
		fed2[rng.Intn(len(fed2))] ^= 0x3c
	}
	send(v2, fed2, h2, sc.Parts2, ftime2)
	settle()
	dom.Before = nil
	before = append(before, rs.Disp.Events()...)
	rs.restamp()
	rs.reboot(false)
	rs.Stage.Recover()
	settle()
	// the predecessor arrives: whatever is held is released
	pd := []byte("predecessor-content")
	dp := &desc{Name: pred, Hash: md5hex(pd), Size: int64(len(pd)), Time: ftime, Beg: 0, End: int64(len(pd)), Send: int64(len(pd))}
	rs.Stage.Prepare([]sts.Binned{dp})
	_ = rs.Stage.Receive(dp.partial("src"), &chunkyReader{data: pd, rng: rng, stop: -1})
	settle()
	sc.StatusAfter = rs.Stage.GetFileStatus(name, ftime2)
	if sc.StatusAfter == sts.ConfirmFailed || sc.StatusAfter == sts.ConfirmNone {
		sc.Resent = true
		send(v2, v2, h2, sc.Parts2, ftime2)
		settle()
	}
	// ---- oracle
	logged := map[string]bool{}
	rs.Log.inner.Parse(func(n, renamed, hash string, size int64, t time.Time) bool {
		logged[n+"|"+hash] = true
		return false
	}, time.Now().Add(-48*time.Hour), time.Now().Add(time.Hour))
	where := fmt.Sprintf("v2 damaged=%v, crash %d (%s), status after recovery %d", sc.CorruptV2, sc.CrashAt, sc.CrashedAt, sc.StatusAfter)
	check := func(what, m string) {
		if m != h1 && m != h2 {
			viol("final-is-source-version", "crash-final-not-a-version", fmt.Sprintf("%s: %s holds content (md5 %s) that is neither version (%s)", what, name, m, where))
			return
		}
		if !logged[name+"|"+m] {
			viol("hash-logged", "crash-delivered-under-other-hash", fmt.Sprintf("%s: %s holds the version with md5 %s but the receive log has no record (%s, that hash) (%s)", what, name, m, name, where))
		}
	}
	if b, err := os.ReadFile(filepath.Join(rs.FinalDir, name)); err == nil {
		check("final directory", md5hex(b))
	}
	for _, d := range append(before, rs.Disp.Events()...) {
		if d.Rel == name {
			check(fmt.Sprintf("delivery event #%d", d.Seq), d.MD5)
		}
	}
	// a positive answer for the name needs a validated copy of SOME version that is logged under its own hash
	if st := rs.Stage.GetFileStatus(name, ftime2); st == sts.ConfirmPassed {
		b, err := os.ReadFile(filepath.Join(rs.FinalDir, name))
		if err != nil {
			viol("hash-logged", "crash-passed-without-final-copy", fmt.Sprintf("the poll answers 'passed' for %s but the final directory has no such file (%s)", name, where))
		} else if sc.Resent && md5hex(b) != h2 {
			viol("final-is-source-version", "crash-resent-version-not-delivered", fmt.Sprintf("version 2 was sent again intact and the poll answers 'passed', but the final directory holds md5 %s (%s)", md5hex(b), where))
		}
	}
	res.Count("version_crash_histories", 1)
	if sc.CrashedAt != "" {
		res.Count("version_crash_points_hit", 1)
		res.NonTrivial(fmt.Sprintf("vcrash/%d/%d/%d/%d/%v/%d/%s", sc.Size1, sc.Size2, sc.Parts1, sc.Parts2, sc.CorruptV2, sc.CrashAt, sc.CrashedAt))
	} else {
		res.NonTrivial(fmt.Sprintf("vrestart/%d/%d/%d/%d/%v", sc.Size1, sc.Size2, sc.Parts1, sc.Parts2, sc.CorruptV2))
	}
	res.Sample(sc)
}

// runVersionCrash: the version crash family on its own (C06 runs it next to the crash enumeration)
func runVersionCrash(c *Ctx, prop string) {
	n := c.N(150, 3000)
	for i := 0; i < n; i++ {
		idx := 7_000_000 + i
		if !c.Mine(idx) {
			continue
		}
		rng := c.Rng(idx)
		dir := filepath.Join(c.Work, fmt.Sprintf("vcr-%d", idx))
		cs := &c01CrashScenario{}
		c.Guard(idx, cs, func() {
			bubble(c.T, func() { c01CrashRun(c, prop, idx, rng, cs, dir) })
		})
		os.RemoveAll(dir)
	}
}
