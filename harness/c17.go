package harness

import (
	"encoding/json"
	"fmt"
	"math/rand"
	"os"
	"path/filepath"
	"regexp"
	"sort"
	"strings"
	"time"

	"github.com/arm-doe/sts"
	"github.com/arm-doe/sts/store"
)

// C17 — only eligible files are sent, each version once, changed files again.
//
// (a) eligibility: generated directory trees x pattern sets x minimum ages against
//     the real store.Local scan, compared with a reference predicate written from
//     the property text;
// (b) histories: end-to-end runs in which source files are rewritten, appended
//     to, touched, replaced and re-created between and during scans, hashing and
//     transmission.

func init() {
	register("C17", runC17)
	accepts["C17"] = map[string]bool{"C01": true, "C03": true}
}

type c17Node struct {
	Path   string  `json:"path"`
	Kind   string  `json:"kind"` // file | dir | link-file | link-dir | link-rel
	Size   int     `json:"size"`
	AgeSec float64 `json:"age_s"`
	Target string  `json:"target,omitempty"`
}

type c17Scenario struct {
	Nodes    []c17Node `json:"nodes"`
	MinAge   float64   `json:"min_age_s"`
	Hidden   bool      `json:"include_hidden"`
	Include  []string  `json:"include"`
	Ignore   []string  `json:"ignore"`
	Disabled bool      `json:"disabled_marker_at_root"`
	Follow   bool      `json:"follow_symlinks"`
}

func runC17(c *Ctx) {
	n := c.N(1500, 50000)
	for i := 0; i < n; i++ {
		if !c.Mine(i) {
			continue
		}
		rng := c.Rng(i)
		sc := &c17Scenario{}
		dir := filepath.Join(c.Work, fmt.Sprintf("c17-%d", i))
		c.Guard(i, sc, func() {
			bubble(c.T, func() { c17Tree(c, i, rng, sc, dir) })
		})
		os.RemoveAll(dir)
	}
	runC17Follow(c)
	m := c.N(250, 6000)
	for i := 0; i < m; i++ {
		idx := 1_000_000 + i
		if !c.Mine(idx) {
			continue
		}
		rng := c.Rng(idx)
		sp := genSpec(rng, "C17", idx)
		nf := len(sp.Files)
		for k := 0; k < 1+rng.Intn(4); k++ {
			sp.Mutations = append(sp.Mutations, mutation{AtAction: 3 + rng.Intn(160), File: rng.Intn(nf), Kind: []string{"rewrite", "append", "replace", "touch", "rewrite-older", "touch-older", "rewrite-same-second"}[rng.Intn(7)]})
		}
		if rng.Intn(3) == 0 {
			// (damage in transit makes the receiver answer 'failed': the validation-retry
			// path hashes and queues the file again - unless it changed meanwhile)
			sp.Faults = []fault{{Kind: []string{fCutMid, fLostAnswer, fPollFail, fFailPart, fCorrupt, fCorrupt}[rng.Intn(6)], Nth: 1 + rng.Intn(4), K: rng.Intn(3)}}
		}
		if rng.Intn(3) == 0 {
			// a sender restart: what was confirmed before it (and is still in the outgoing
			// directory, unchanged) is not picked up again by the scans of the new instance
			sp.SenderCrashAt = []int{10 + rng.Intn(150)}
			if rng.Intn(2) == 0 {
				sp.Conf.Tags[0].Delete = false
			}
		}
		if len(sp.SenderCrashAt) > 0 && rng.Intn(3) == 0 {
			// hashing one file fails in the first instance (it stays in the cache without a
			// hash); before the second instance starts the operator adds an ignore pattern
			// that matches it: it must never be hashed, sent or deleted by that instance
			f := sp.Files[rng.Intn(nf)].Name
			cc := *sp.Conf
			cc.OpenFailGen1 = []string{f}
			cc.IgnoreFromGen2 = []string{"^" + regexp.QuoteMeta(f) + "$"}
			sp.Conf = &cc
		}
		dir := filepath.Join(c.Work, fmt.Sprintf("c17e-%d", idx))
		c.Guard(idx, sp, func() {
			bubble(c.T, func() { c17History(c, idx, rng.Int63(), sp, dir) })
		})
		os.RemoveAll(dir)
	}
}

func c17Tree(c *Ctx, idx int, rng *rand.Rand, sc *c17Scenario, dir string) {
	res := c.Res
	res.Eval()
	viol := func(clause, fp, detail string) {
		res.Violate(Violation{Clause: clause, Fingerprint: "C17/" + fp, Detail: detail, Scenario: sc, Index: idx})
	}
	root := filepath.Join(dir, "out")
	ext := filepath.Join(dir, "elsewhere")
	_ = os.MkdirAll(root, 0o755)
	_ = os.MkdirAll(ext, 0o755)
	now := time.Now()
	sc.MinAge = []float64{0, 0, 30, 300}[rng.Intn(4)]
	sc.Hidden = rng.Intn(4) == 0
	if rng.Intn(3) == 0 {
		sc.Include = [][]string{{`\.dat$`}, {`^keep/`, `\.nc$`}}[rng.Intn(2)]
	}
	if rng.Intn(2) == 0 {
		sc.Ignore = [][]string{{`\.tmp$`}, {`^skip/`}, {`\.tmp$`, `^a/private`}}[rng.Intn(3)]
	}
	sc.Disabled = rng.Intn(15) == 0
	dirs := []string{"", "a", "a/b", "keep", "skip", ".hid", "a/.deep", "a/private", "c"}
	names := []string{"f1.dat", "f2.nc", "x.tmp", ".dotfile", "g.dat.lck", ".disabled", "plain", "h.DAT", "i.dat"}
	nfiles := 3 + rng.Intn(14)
	seen := map[string]bool{}
	ages := []float64{0, 10, 29, 31, 299, 301, 5000}
	for k := 0; k < nfiles; k++ {
		d := dirs[rng.Intn(len(dirs))]
		nm := names[rng.Intn(len(names))]
		if nm == ".disabled" && d == "" {
			continue
		}
		rel := filepath.Join(d, nm)
		if seen[rel] {
			continue
		}
		seen[rel] = true
		node := c17Node{Path: rel, Kind: "file", Size: rng.Intn(50), AgeSec: ages[rng.Intn(len(ages))]}
		if rng.Intn(6) == 0 {
			node.Size = 0
		}
		p := filepath.Join(root, rel)
		_ = os.MkdirAll(filepath.Dir(p), 0o755)
		_ = os.WriteFile(p, randBytes(rng, int64(node.Size)), 0o644)
		t := now.Add(-time.Duration(node.AgeSec * float64(time.Second)))
		_ = os.Chtimes(p, t, t)
		sc.Nodes = append(sc.Nodes, node)
	}
	// symbolic links to files (absolute targets) and to directories
	if rng.Intn(3) == 0 {
		tgt := filepath.Join(ext, "linked.dat")
		_ = os.WriteFile(tgt, randBytes(rng, 40), 0o644)
		t := now.Add(-time.Hour)
		_ = os.Chtimes(tgt, t, t)
		lp := filepath.Join(root, "c", "link.dat")
		_ = os.MkdirAll(filepath.Dir(lp), 0o755)
		if os.Symlink(tgt, lp) == nil {
			lutimes(lp, now.Add(-time.Hour)) // the link's own mtime is what the scan sees
			sc.Nodes = append(sc.Nodes, c17Node{Path: "c/link.dat", Kind: "link-file", Size: 40, AgeSec: 3600, Target: tgt})
		}
		dl := filepath.Join(root, "c", "linkdir")
		if os.Symlink(ext, dl) == nil {
			lutimes(dl, now.Add(-time.Hour))
			sc.Nodes = append(sc.Nodes, c17Node{Path: "c/linkdir", Kind: "link-dir", Target: ext})
		}
	}
	if sc.Disabled {
		_ = os.WriteFile(filepath.Join(root, ".disabled"), nil, 0o644)
	}
	st := &store.Local{Root: root, MinAge: time.Duration(sc.MinAge * float64(time.Second)), IncludeHidden: sc.Hidden}
	for _, p := range sc.Include {
		st.Include = append(st.Include, regexp.MustCompile(p))
	}
	for _, p := range sc.Ignore {
		st.Ignore = append(st.Ignore, regexp.MustCompile(p))
	}
	st.AddStandardIgnore()
	// the broker's own filter: zero-length files are skipped
	files, _, err := st.Scan(func(f sts.File) bool { return f.GetSize() > 0 })
	if err != nil {
		viol("scan-succeeds", "scan-error", err.Error())
		return
	}
	got := map[string]bool{}
	for _, f := range files {
		got[f.GetName()] = true
	}
	// ---- reference predicate
	matchAny := func(pats []string, s string) bool {
		for _, p := range pats {
			if ok, _ := regexp.MatchString(p, s); ok {
				return true
			}
		}
		return false
	}
	want := map[string]bool{}
	why := map[string]string{}
	for _, nd := range sc.Nodes {
		if nd.Kind == "link-dir" {
			continue
		}
		rel := nd.Path
		reason := ""
		segs := strings.Split(rel, string(os.PathSeparator))
		switch {
		case sc.Disabled:
			reason = "directory disabled"
		case nd.Size == 0:
			reason = "empty"
		case nd.AgeSec < sc.MinAge:
			reason = "too young"
		case strings.HasSuffix(rel, ".lck"):
			reason = "lock file"
		case filepath.Base(rel) == ".disabled":
			reason = "disable marker"
		}
		if reason == "" && !sc.Hidden {
			for _, s := range segs {
				if strings.HasPrefix(s, ".") {
					reason = "hidden"
				}
			}
		}
		if reason == "" {
			// an ignore pattern that matches the file or one of its directories
			for k := 1; k <= len(segs); k++ {
				if matchAny(sc.Ignore, filepath.Join(segs[:k]...)) {
					reason = "ignore pattern"
				}
			}
		}
		if reason == "" && len(sc.Include) > 0 && !matchAny(sc.Include, rel) {
			reason = "not included"
		}
		if reason == "" {
			want[rel] = true
		}
		why[rel] = reason
	}
	var diff []string
	for rel := range want {
		if !got[rel] {
			diff = append(diff, "missing eligible "+rel)
			kind := "file"
			for _, nd := range sc.Nodes {
				if nd.Path == rel {
					kind = nd.Kind
				}
			}
			viol("eligible-iff-found", "eligible-not-found/"+kind, fmt.Sprintf("%s is eligible (size>0, old enough, not hidden/ignored, included) but the scan did not return it", rel))
		}
	}
	for rel := range got {
		if !want[rel] {
			r := why[rel]
			if r == "" {
				r = "not a generated file"
			}
			viol("eligible-iff-found", "ineligible-found/"+strings.ReplaceAll(r, " ", "-"), fmt.Sprintf("the scan returned %s which is ineligible (%s)", rel, r))
			diff = append(diff, "unexpected "+rel)
		}
	}
	sort.Strings(diff)
	res.Count("trees", 1)
	res.Count("files_in_trees", int64(len(sc.Nodes)))
	res.Count("eligible_files", int64(len(want)))
	inel := 0
	for _, nd := range sc.Nodes {
		if !want[nd.Path] {
			inel++
		}
	}
	if len(want) > 0 && inel > 0 {
		res.NonTrivial(fmt.Sprintf("%v/%v/%v/%v/%v/%v", sc.Nodes, sc.MinAge, sc.Hidden, sc.Include, sc.Ignore, sc.Disabled))
	}
	res.Sample(sc)
}

// c17History: files change while the sender runs
func c17History(c *Ctx, idx int, seed int64, sp *e2eSpec, dir string) {
	res := c.Res
	res.Eval()
	o := e2eRun(c, seed, sp, dir)
	defer o.w.close()
	v := func(p, clause, fp, detail string) {
		if p != "C17" {
			if !accepts["C17"][p] {
				return
			}
			fp = p + ":" + fp
		}
		s := *sp
		s.Events = tailEvents(o.events, 150)
		res.Violate(Violation{Clause: clause, Fingerprint: "C17/" + fp, Detail: detail, Scenario: &s, Index: idx})
	}
	if dp := os.Getenv("VERIF_DUMP"); dp != "" {
		b, _ := json.MarshalIndent(map[string]any{"events": o.events, "requests": o.reqs, "final": o.final, "staged": o.staged, "sources": o.sources, "cache": o.cache, "terminated": o.terminated}, "", " ")
		_ = os.WriteFile(dp, b, 0o644)
	}
	// what the sender's cache takes in as "a version" is one version: hash, size and
	// modification time of every entry added belong to one registered version of that
	// name (an entry with the hash of the new content under the old size / time makes
	// the next scan send the same version again, and sends it before it is eligible)
	for _, e := range o.events {
		if e.Kind != "cache_add" || e.S == "" {
			continue
		}
		res.Count("cache_entries_checked", 1)
		if !o.w.isVersion(e.Name, e.S) {
			continue // content seen in the middle of a write: the integrity oracle's business
		}
		// (reported when the entry pairs the hash of one registered version with the size and
		// time of ANOTHER one; a stamp that no registered version ever had is not decided here)
		if !o.w.describesVersion(e.Name, e.S, e.A, e.B) && o.w.versionWithStamp(e.Name, e.A, e.B) {
			v("C17", "cache-entry-is-one-version", "cache-entry-mixes-versions", fmt.Sprintf("the sender cached %s with hash %s, size %d and modification time %s (at %s): that hash belongs to one version of the file, that size and time to another", e.Name, e.S, e.A, time.Unix(0, e.B).UTC().Format(time.RFC3339Nano), e.VT))
			break
		}
	}
	for _, ign := range sp.Conf.OpenFailGen1 {
		// nothing is expected of a file that cannot be read and is then ignored ...
		o.w.regMu.Lock()
		if o.w.gone == nil {
			o.w.gone = map[string]bool{}
		}
		o.w.gone[ign] = true
		o.w.regMu.Unlock()
		// ... except that the instance for which it is ineligible leaves it alone
		for _, q := range o.reqs {
			if q.Class != "data" || q.Gen < 2 {
				continue
			}
			for _, p := range q.Parts {
				if p.Name == ign {
					v("C17", "ineligible-never-transmitted", "ignored-file-transmitted", fmt.Sprintf("%s matches the ignore pattern of sender instance %d, yet part [%d,%d) of it was transmitted by that instance (it was in the cache without a hash: hashing had failed before the restart)", ign, q.Gen, p.Beg, p.End))
					break
				}
			}
		}
		for _, e := range o.events {
			if e.Kind == "remove" && e.Name == ign && e.Gen >= 2 {
				v("C17", "ineligible-never-deleted", "ignored-file-deleted", fmt.Sprintf("%s matches the ignore pattern of sender instance %d, yet that instance deleted it", ign, e.Gen))
			}
		}
		res.Count("histories_with_a_file_ignored_after_restart", 1)
	}
	oracleIntegrity(o, v) // every delivered byte string is one complete registered version
	oracleProgress(o, v)  // the final version is delivered, confirmed, recorded
	// a version (name, size, mtime) whose transfer was confirmed is not transmitted
	// again by later scans: after Cache.Done(name) no part of that name is sent
	// unless the file was written (content or mtime) after it had been hashed
	type doneEv struct{ seq, addSeq int }
	dones := map[string][]doneEv{}
	lastAdd := map[string]int{}
	writes := map[string][]int{}
	lastScan := 0
	for _, e := range o.events {
		switch e.Kind {
		case "scan":
			// the version a scan finds is the file's state at some moment between the
			// scan's begin (B) and its end (Seq): a write in that window may or may not be in it
			lastScan = int(e.B)
		case "cache_add":
			// what gets cached is the (size, mtime) the preceding scan saw
			lastAdd[e.Name] = lastScan
		case "cache_done":
			dones[e.Name] = append(dones[e.Name], doneEv{e.Seq, lastAdd[e.Name]})
		case "write_source":
			writes[e.Name] = append(writes[e.Name], e.Seq)
		}
	}
	// a push belongs to the scan that found the file: the latest scan before it that
	// LISTED the name (hashing and queueing of a scan's batch can take many seconds,
	// so the latest scan event before the push may be a younger, unrelated one)
	scanFound := map[string]int{}
	for _, e := range o.events {
		if e.Kind == "scan" {
			for _, nm := range strings.Split(e.S, ",") {
				scanFound[nm] = int(e.B)
			}
		}
		if e.Kind != "q_push" || e.S != "plain" {
			continue
		}
		scanOf := scanFound[e.Name]
		for _, d := range dones[e.Name] {
			// only a scan that STARTED after the confirmation counts as "later"
			if e.Seq <= d.seq || scanOf <= d.seq {
				continue
			}
			changed := false
			for _, ws := range writes[e.Name] {
				if ws > d.addSeq {
					changed = true
				}
			}
			if !changed && !failedValidation(o, e.Name) {
				v("C17", "confirmed-version-not-sent-again", "confirmed-version-requeued", fmt.Sprintf("%s was confirmed and marked done and was not written since the scan that found that version, yet a later scan queued it for sending again", e.Name))
			}
		}
	}
	res.Count("mutations_applied", int64(o.mutationsHit))
	res.Count("deliveries", int64(len(o.delivered)))
	if o.mutationsHit > 0 {
		res.NonTrivial(fmt.Sprintf("hist/%d/%v/%v", len(sp.Files), sp.Mutations, sp.Faults))
	}
}
