package harness

import (
	"crypto/md5"
	"encoding/hex"
	"encoding/json"
	"fmt"
	"hash/fnv"
	"math/rand"
	"os"
	"path/filepath"
	"runtime"
	"runtime/debug"
	"sort"
	"strconv"
	"strings"
	"sync"
	"sync/atomic"
	"testing"
	"time"
)

// Violation is one refutation of a property by an oracle
type Violation struct {
	Clause      string `json:"clause"`      // which oracle clause fired
	Fingerprint string `json:"fingerprint"` // matched against known_findings.json
	Detail      string `json:"detail"`
	Scenario    any    `json:"scenario"` // enough to replay
	Index       int    `json:"index"`
}

// Result is what one child process reports
type Result struct {
	Prop         string           `json:"prop"`
	Tier         string           `json:"tier"`
	Seed         int64            `json:"seed"`
	Batch        int              `json:"batch"`
	NBatch       int              `json:"nbatch"`
	Evaluations  int              `json:"evaluations"`
	Nontrivial   map[string]int   `json:"nontrivial"` // distinct key -> count
	Samples      []any            `json:"samples"`
	Violations   []Violation      `json:"violations"`
	Inconclusive int              `json:"inconclusive"`
	InconcNotes  []string         `json:"inconclusive_notes"`
	Counters     map[string]int64 `json:"counters"`
	VfsCalls     int64            `json:"vfs_calls"`
	Completed    bool             `json:"completed"`
	mu           sync.Mutex
}

// Ctx is handed to every property runner
type Ctx struct {
	Prop   string
	Tier   string
	Seed   int64
	Batch  int
	NBatch int
	Work   string
	Res    *Result
	T      *testing.T
	Replay *Violation // non-nil: re-run only this scenario
	// ResumeFrom: scenario indices below this were handled by an earlier
	// incarnation of this child (which was stopped by the hang watchdog)
	ResumeFrom int
}

var (
	progressIdx atomic.Int64
	progressAt  atomic.Int64
)

func (c *Ctx) Thorough() bool { return c.Tier == "thorough" }

// Mine reports whether scenario index i belongs to this batch (and, after a
// watchdog restart, has not been attempted yet).  It also feeds the watchdog.
func (c *Ctx) Mine(i int) bool {
	if c.Replay != nil {
		return i == c.Replay.Index
	}
	if i%c.NBatch != c.Batch || i < c.ResumeFrom {
		return false
	}
	progressIdx.Store(int64(i))
	progressAt.Store(time.Now().UnixNano())
	return true
}

// Rng returns the PRNG for scenario index i (independent of batching)
func (c *Ctx) Rng(i int) *rand.Rand {
	h := fnv.New64a()
	fmt.Fprintf(h, "%s/%d/%d", c.Prop, c.Seed, i)
	return rand.New(rand.NewSource(int64(h.Sum64())))
}

// N picks the scenario count by tier
func (c *Ctx) N(quick, thorough int) int {
	n := quick
	if c.Thorough() {
		n = thorough
	}
	if m, err := strconv.Atoi(os.Getenv("VERIF_MAXN")); err == nil && m > 0 && m < n {
		n = m
	}
	return n
}

func (r *Result) Eval() {
	r.mu.Lock()
	r.Evaluations++
	r.mu.Unlock()
}

func (r *Result) Count(k string, n int64) {
	r.mu.Lock()
	r.Counters[k] += n
	r.mu.Unlock()
}

// NonTrivial records a distinct non-trivial case key
func (r *Result) NonTrivial(key string) {
	r.mu.Lock()
	r.Nontrivial[shortHash(key)]++
	r.mu.Unlock()
}

func (r *Result) Sample(s any) {
	r.mu.Lock()
	if len(r.Samples) < 3 {
		r.Samples = append(r.Samples, s)
	}
	r.mu.Unlock()
}

func (r *Result) Violate(v Violation) {
	r.mu.Lock()
	if len(r.Violations) < 200 {
		r.Violations = append(r.Violations, v)
	}
	r.Counters["violations_total"]++
	r.mu.Unlock()
}

func (r *Result) Inconc(note string) {
	r.mu.Lock()
	r.Inconclusive++
	if len(r.InconcNotes) < 20 {
		r.InconcNotes = append(r.InconcNotes, note)
	}
	r.mu.Unlock()
}

func shortHash(s string) string {
	h := md5.Sum([]byte(s))
	return hex.EncodeToString(h[:8])
}

func md5hex(b []byte) string {
	h := md5.Sum(b)
	return hex.EncodeToString(h[:])
}

// Guard runs f and converts a panic into a violation of class "panic" when the
// stack shows sts frames, otherwise into an inconclusive run.
// scenarioZones: the local time zone of the processes under test varies from scenario
// to scenario (by index, so that a replay gets the same one): UTC, ahead of it, behind it.
// Day files of the rolling logs are named by LOCAL date.
var scenarioZones = []*time.Location{time.UTC, time.FixedZone("ahead", 11*3600+1800), time.UTC, time.FixedZone("behind", -9*3600)}

func (c *Ctx) Guard(index int, scenario any, f func()) {
	if index >= 0 && os.Getenv("VERIF_NO_ZONES") == "" {
		time.Local = scenarioZones[index%len(scenarioZones)]
	}
	defer func() {
		if p := recover(); p != nil {
			st := string(debug.Stack())
			msg := fmt.Sprint(p)
			if strings.Contains(msg, "deadlock: main bubble goroutine has exited") {
				// expected: Stage/Broker worker goroutines outlive the scenario
				return
			}
			if strings.Contains(st, "github.com/arm-doe/sts/") && !strings.Contains(msg, "harness:") {
				c.Res.Violate(Violation{Clause: "panic", Fingerprint: c.Prop + "/panic/" + firstStsFrame(st),
					Detail: msg + "\n" + trimStack(st), Scenario: scenario, Index: index})
			} else {
				c.Res.Inconc("harness panic: " + msg + "\n" + trimStack(st))
			}
		}
	}()
	f()
}

func firstStsFrame(st string) string {
	for _, ln := range strings.Split(st, "\n") {
		if strings.HasPrefix(ln, "github.com/arm-doe/sts/") && !strings.Contains(ln, "zzverif") {
			if i := strings.Index(ln, "("); i > 0 {
				ln = ln[:i]
			}
			return strings.TrimPrefix(ln, "github.com/arm-doe/sts/")
		}
	}
	return "?"
}

func trimStack(st string) string {
	if len(st) > 3000 {
		return st[:3000]
	}
	return st
}

type runner func(c *Ctx)

var runners = map[string]runner{}

func register(prop string, r runner) { runners[prop] = r }

// RunEngine is the entry point used by TestEngine
func RunEngine(t *testing.T) {
	prop := os.Getenv("VERIF_PROP")
	if prop == "" {
		t.Skip("VERIF_PROP not set")
	}
	r, ok := runners[prop]
	if !ok {
		t.Fatalf("no runner for %s", prop)
	}
	tier := os.Getenv("VERIF_TIER")
	if tier == "" {
		tier = "quick"
	}
	seed, _ := strconv.ParseInt(os.Getenv("VERIF_SEED"), 10, 64)
	batch, nbatch := 0, 1
	if b := os.Getenv("VERIF_BATCH"); b != "" {
		fmt.Sscanf(b, "%d/%d", &batch, &nbatch)
	}
	work := os.Getenv("VERIF_WORKDIR")
	if work == "" {
		work = filepath.Join(os.TempDir(), fmt.Sprintf("verif-%d", os.Getpid()))
	}
	_ = os.MkdirAll(work, 0o755)
	res := &Result{Prop: prop, Tier: tier, Seed: seed, Batch: batch, NBatch: nbatch,
		Nontrivial: map[string]int{}, Counters: map[string]int64{}}
	c := &Ctx{Prop: prop, Tier: tier, Seed: seed, Batch: batch, NBatch: nbatch, Work: work, Res: res, T: t}
	if rp := os.Getenv("VERIF_REPLAY"); rp != "" {
		b, err := os.ReadFile(rp)
		if err != nil {
			t.Fatalf("replay: %v", err)
		}
		var v struct {
			Violation
			Seed int64  `json:"seed"`
			Tier string `json:"tier"`
		}
		if err := json.Unmarshal(b, &v); err != nil {
			t.Fatalf("replay: %v", err)
		}
		c.Replay = &v.Violation
		c.Seed, res.Seed = v.Seed, v.Seed
		if v.Tier != "" {
			c.Tier, res.Tier = v.Tier, v.Tier
		}
		c.Batch, c.NBatch = 0, 1
	}
	initLogger()
	out := os.Getenv("VERIF_OUT")
	flush := func() {
		res.VfsCalls = vfsCalls()
		if out != "" {
			b, _ := json.Marshal(res)
			_ = os.WriteFile(out+".tmp", b, 0o644)
			_ = os.Rename(out+".tmp", out)
		}
	}
	defer flush()
	if rf, err := strconv.Atoi(os.Getenv("VERIF_RESUME")); err == nil {
		c.ResumeFrom = rf
	}
	// Hang watchdog (real time, outside any bubble).  A scenario that makes no
	// progress for hangSecs is a harness limitation (typically: a goroutine parked
	// or sleeping while holding a sync.Mutex stops the virtual clock), never a
	// verdict: it is recorded as inconclusive, the results so far are flushed and
	// the process exits with code 75 so that the driver restarts it after that
	// scenario.
	hangSecs := 45
	if hs, err := strconv.Atoi(os.Getenv("VERIF_HANG_SECS")); err == nil && hs > 0 {
		hangSecs = hs
	}
	progressAt.Store(time.Now().UnixNano())
	progressIdx.Store(-1)
	go func() {
		for {
			time.Sleep(time.Second)
			if time.Since(time.Unix(0, progressAt.Load())) > time.Duration(hangSecs)*time.Second {
				// (crashed instances leave their goroutines behind in their finished bubbles: the
				// dump of a long run has thousands of goroutines, and the classification below
				// must see the LAST bubble, which comes last in the dump)
				buf := make([]byte, 64<<20)
				n := runtime.Stack(buf, true)
				idx := progressIdx.Load()
				_ = os.WriteFile(filepath.Join(work, fmt.Sprintf("hang-%d.txt", idx)), buf[:n], 0o644)
				if fn, detail := stsDeadlock(string(buf[:n])); fn != "" {
					// every goroutine of the scenario is blocked, none sleeps inside sts or
					// hook code, and at least one waits for a sync mutex inside sts: nobody
					// is left who could release it
					res.Violate(Violation{Clause: "no-deadlock", Fingerprint: c.Prop + "/deadlock/" + fn,
						Detail: fmt.Sprintf("scenario %d: all goroutines of the scenario are blocked and %s", idx, detail), Scenario: map[string]any{"index": idx}, Index: int(idx)})
					res.Counters["deadlocked_scenarios"]++
				} else {
					res.Inconc(fmt.Sprintf("scenario %d made no progress for %ds (wall clock) - abandoned [%s]", idx, hangSecs, hangSummary(string(buf[:n]))))
				}
				res.Counters["hung_scenarios"]++
				res.Completed = false
				flush()
				fmt.Fprintf(os.Stderr, "VERIF-HANG index=%d\n", idx)
				if os.Getenv("VERIF_HANGDUMP") != "" {
					os.Stderr.Write(buf[:n])
				}
				os.Exit(75)
			}
		}
	}()
	r(c)
	res.Completed = true
	flush()
	if out == "" {
		keys := make([]string, 0, len(res.Counters))
		for k := range res.Counters {
			keys = append(keys, k)
		}
		sort.Strings(keys)
		for _, k := range keys {
			t.Logf("counter %s = %d", k, res.Counters[k])
		}
		t.Logf("evaluations=%d nontrivial=%d inconclusive=%d violations=%d", res.Evaluations, len(res.Nontrivial), res.Inconclusive, len(res.Violations))
		for i, v := range res.Violations {
			if i > 10 {
				break
			}
			t.Logf("VIOLATION %s %s: %s", v.Clause, v.Fingerprint, v.Detail)
		}
		for _, n := range res.InconcNotes {
			t.Logf("INCONCLUSIVE %s", n)
		}
	}
}

// stsDeadlock looks at a dump of all goroutines taken when a scenario stopped making
// progress and decides whether it shows a deadlock INSIDE sts: in the scenario's bubble
// (the highest-numbered one) no goroutine is running, runnable or in a system call, no
// goroutine that has sts or hook frames on its stack is sleeping (a sleeper may hold the
// lock and would release it on a real clock - that is the virtual-clock artefact), no
// instance was crashed (no parked goroutine), and at least one goroutine with sts frames
// waits for a sync.Mutex / RWMutex.  Returns the sts function that waits, and a description.
func stsDeadlock(dump string) (string, string) {
	type gr struct {
		state, stack string
		bubble       int
	}
	var gs []gr
	maxB := -1
	for _, blk := range strings.Split(dump, "\n\n") {
		blk = strings.TrimSpace(blk)
		if !strings.HasPrefix(blk, "goroutine ") {
			continue
		}
		hdr := blk
		if i := strings.Index(blk, "\n"); i > 0 {
			hdr = blk[:i]
		}
		lb, rb := strings.Index(hdr, "["), strings.LastIndex(hdr, "]")
		if lb < 0 || rb < lb {
			continue
		}
		st := hdr[lb+1 : rb]
		b := -1
		if i := strings.Index(st, "synctest bubble "); i >= 0 {
			fmt.Sscanf(st[i:], "synctest bubble %d", &b)
		}
		if b > maxB {
			maxB = b
		}
		gs = append(gs, gr{state: st, stack: blk, bubble: b})
	}
	if maxB < 0 {
		return "", ""
	}
	hasSts := func(stack string) bool {
		for _, ln := range strings.Split(stack, "\n") {
			if strings.HasPrefix(ln, "github.com/arm-doe/sts/") {
				return true // sts proper or the hook package inside it
			}
		}
		return false
	}
	waiter := ""
	for _, g := range gs {
		if g.bubble != maxB {
			continue
		}
		st := g.state
		switch {
		case strings.HasPrefix(st, "running"), strings.HasPrefix(st, "runnable"), strings.HasPrefix(st, "syscall"), strings.HasPrefix(st, "IO wait"):
			return "", ""
		case strings.HasPrefix(st, "select (no cases)"):
			return "", "" // a crashed instance's goroutine: it may hold what the others wait for
		case strings.HasPrefix(st, "sleep") && hasSts(g.stack):
			return "", ""
		case (strings.HasPrefix(st, "sync.Mutex.Lock") || strings.HasPrefix(st, "sync.RWMutex") || strings.HasPrefix(st, "semacquire")) && hasSts(g.stack):
			if waiter == "" {
				waiter = g.stack
			}
		}
	}
	if waiter == "" {
		return "", ""
	}
	// who could hold the lock?  Only goroutines that are inside the waiter's package.  If
	// one of them is in the middle of something (more than its idle loop on the stack) and
	// waits for a channel, a reader or a wait group, it may hold the lock while it waits for
	// an event the harness failed to deliver (a connection that would have broken): not
	// decided.  The lock is only provably orphaned when every goroutine inside that package
	// waits for a mutex itself or sits idle in its worker loop.
	pkg := ""
	for _, ln := range strings.Split(waiter, "\n") {
		if strings.HasPrefix(ln, "github.com/arm-doe/sts/") && !strings.Contains(ln, "zzverif") {
			rest := strings.TrimPrefix(ln, "github.com/arm-doe/sts/")
			if i := strings.IndexAny(rest, ".("); i > 0 {
				pkg = "github.com/arm-doe/sts/" + rest[:i] + "."
			}
			break
		}
	}
	if pkg == "" {
		return "", ""
	}
	for _, g := range gs {
		if g.bubble != maxB {
			continue
		}
		n := 0
		for _, ln := range strings.Split(g.stack, "\n") {
			if strings.HasPrefix(ln, pkg) {
				n++
			}
		}
		if n == 0 {
			continue
		}
		st := g.state
		if strings.HasPrefix(st, "sync.Mutex.Lock") || strings.HasPrefix(st, "sync.RWMutex") || strings.HasPrefix(st, "semacquire") {
			continue
		}
		// idle = a worker that sits in the function it was started with (its only frame of
		// the package is the goroutine's entry function) - anything else, e.g. a Receive
		// called by a request handler and waiting for the rest of its body, may hold the lock
		entry := ""
		for _, ln := range strings.Split(g.stack, "\n") {
			if ln == "" || strings.HasPrefix(ln, "\t") || strings.HasPrefix(ln, "goroutine ") || strings.HasPrefix(ln, "created by ") {
				continue
			}
			entry = ln
		}
		if n > 1 || !strings.HasPrefix(entry, pkg) {
			return "", "" // busy inside the package and waiting for something else
		}
	}
	fn := ""
	for _, ln := range strings.Split(waiter, "\n") {
		if strings.HasPrefix(ln, "github.com/arm-doe/sts/") && !strings.Contains(ln, "zzverif") {
			fn = ln
			if i := strings.Index(fn, "("); i > 0 && !strings.HasPrefix(fn[i:], "(*") {
				fn = fn[:i]
			} else if j := strings.LastIndex(fn, "("); j > 0 {
				fn = fn[:j]
			}
			fn = strings.TrimPrefix(fn, "github.com/arm-doe/sts/")
			break
		}
	}
	if fn == "" {
		return "", ""
	}
	return fn, "this goroutine waits for a lock that nobody is left to release:\n" + trimStack(waiter)
}

// hangSummary: who waits for a mutex, who sleeps inside sts / hook code, whether an instance
// was crashed - the facts stsDeadlock looks at, for the note of an inconclusive hang
func hangSummary(dump string) string {
	maxB := -1
	var blks []string
	for _, blk := range strings.Split(dump, "\n\n") {
		blk = strings.TrimSpace(blk)
		if strings.HasPrefix(blk, "goroutine ") {
			blks = append(blks, blk)
			if i := strings.Index(blk, "synctest bubble "); i >= 0 {
				b := -1
				fmt.Sscanf(blk[i:], "synctest bubble %d", &b)
				if b > maxB {
					maxB = b
				}
			}
		}
	}
	tag := fmt.Sprintf("synctest bubble %d]", maxB)
	var out []string
	parked := 0
	for _, blk := range blks {
		hdr := blk
		if i := strings.Index(blk, "\n"); i > 0 {
			hdr = blk[:i]
		}
		if !strings.Contains(hdr, tag) {
			continue
		}
		st := hdr[strings.Index(hdr, "[")+1:]
		if strings.HasPrefix(st, "select (no cases)") {
			parked++
			continue
		}
		kind := ""
		switch {
		case strings.HasPrefix(st, "sync.Mutex") || strings.HasPrefix(st, "sync.RWMutex") || strings.HasPrefix(st, "semacquire"):
			kind = "mutex"
		case strings.HasPrefix(st, "sleep"):
			kind = "sleep"
		case strings.HasPrefix(st, "running") || strings.HasPrefix(st, "runnable"):
			kind = "running"
		default:
			continue
		}
		fn := ""
		for _, ln := range strings.Split(blk, "\n") {
			if strings.HasPrefix(ln, "github.com/arm-doe/sts/") || strings.HasPrefix(ln, "verif/harness.") {
				fn = ln
				if j := strings.LastIndex(fn, "("); j > 0 {
					fn = fn[:j]
				}
				fn = strings.TrimPrefix(strings.TrimPrefix(fn, "github.com/arm-doe/sts/"), "verif/")
				break
			}
		}
		if fn != "" && len(out) < 6 {
			out = append(out, kind+":"+fn)
		}
	}
	return fmt.Sprintf("%s; parked=%d", strings.Join(out, ", "), parked)
}
