package harness

import (
	"fmt"
	"math/rand"
	"os"
	"path/filepath"
	"sort"
	"strings"
	"sync"
	"sync/atomic"
	"testing/synctest"
	"time"

	"github.com/arm-doe/sts"
	"github.com/arm-doe/sts/zzverif/vfs"
)

// Generic end-to-end scenario over the W-syn world, shared by the properties
// whose oracles look at a whole transfer (C01 C02 C03 C04 C05 C07 C08 C11 C17).

type mutation struct {
	AtAction int    `json:"at_action"` // sender boundary action (1-based, counted over all generations) that triggers it
	File     int    `json:"file"`
	Kind     string `json:"kind"` // rewrite | append | touch | replace | delete | create
}

type e2eSpec struct {
	Conf           *wConf     `json:"conf"`
	Files          []wsFile   `json:"files"`
	Faults         []fault    `json:"faults,omitempty"`
	Mutations      []mutation `json:"mutations,omitempty"`
	QuietMutations []mutation `json:"mutations_when_quiet,omitempty"`   // applied once everything has been delivered and confirmed
	QuietGapHours  int        `json:"quiet_gap_h,omitempty"`            // virtual hours to let pass before them (ages the receiver's memory)
	SenderCrashAt  []int      `json:"sender_crash_at,omitempty"`        // boundary action numbers (global count)
	RecvCrashAt    []int      `json:"recv_crash_at,omitempty"`          // k-th mutating fs operation of the receiver (global count)
	Downtime       int        `json:"downtime_s"`                       // virtual seconds a crashed side stays down
	OwnOraclesOnly bool       `json:"own_oracles_only,omitempty"`       // crash enumeration: judge only the property's own oracle and C03 progress
	VanishAtCrash  []int      `json:"vanish_at_sender_crash,omitempty"` // these files disappear from the outgoing directory while the sender is down
	PreDelivered   int        `json:"pre_delivered,omitempty"`          // first n files are delivered by an earlier run
	Consume        bool       `json:"consume"`                          // delivered files are taken away by a consumer
	Events         []wEvent   `json:"events_tail,omitempty"`
	Note           string     `json:"note,omitempty"`
}

type removeObs struct {
	Name       string
	SrcMD5     string
	HeldFinal  bool
	HeldWait   bool
	PosPoll    bool
	VT         time.Duration
	Gen        int
	CacheHash  string
	ViaDone    bool
	StillThere bool
	At         time.Time // virtual wall clock at the release
	SrcMTime   time.Time // modification time of the source file at that moment
}

type e2eOutcome struct {
	w            *world
	spec         *e2eSpec
	terminated   bool
	quiescentAt  time.Duration
	lastDisrupt  time.Duration
	final        map[string]string
	staged       []string
	sources      []string
	cache        map[string]bool
	delivered    []delivered
	logged       []loggedRec
	reqs         []*wRequest
	events       []wEvent
	removes      []removeObs
	dones        []removeObs
	statusBad    []string
	vanished     int
	senderCrash  int
	recvCrash    int
	mutationsHit int
	actions      int
	recvOps      int
	recvOpsQuiet int // receiver operations counted when the second act (QuietMutations) began
	debris       int
	crashImages  int
	imageBad     []string
	listingBad   []string
	imageClasses map[string]int
	inFlightLog  int // receiver crashes that fell between a log append and the move
}

// receiverHolds reports whether the receiving side holds a validated copy of
// (name, md5): delivered under its target name (or consumed after delivery), or
// waiting in staging
func (w *world) receiverHolds(name, md5 string) (final bool, wait bool) {
	tgt := filepath.Join(w.recv.FinalDir, targetName(w, name))
	if b, err := os.ReadFile(tgt); err == nil && md5hex(b) == md5 {
		final = true
	}
	if !final {
		for _, d := range w.recv.Disp.Events() {
			if d.Rel == targetName(w, name) && d.MD5 == md5 {
				final = true // delivered (and possibly consumed / replaced since)
			}
		}
	}
	if !final {
		for _, d := range w.allDelivered() {
			if d.Rel == targetName(w, name) && d.MD5 == md5 {
				final = true
			}
		}
	}
	if b, err := os.ReadFile(filepath.Join(w.recv.StageDir, name+".wait")); err == nil && md5hex(b) == md5 {
		wait = true
	}
	return
}

// delivered events of earlier receiver generations are kept here
func (w *world) allDelivered() []delivered {
	w.regMu.Lock()
	defer w.regMu.Unlock()
	return append([]delivered(nil), w.oldDelivered...)
}

func e2eRun(c *Ctx, seed int64, spec *e2eSpec, dir string) *e2eOutcome {
	rng := rand.New(rand.NewSource(seed))
	// any time of day (log windows, look-back steps and cache ages are computed from
	// instants, the logs are kept per calendar day)
	time.Sleep(time.Duration(rng.Intn(86400)) * time.Second)
	w := newWorld(dir, spec.Conf, rng)
	out := &e2eOutcome{w: w, spec: spec}
	w.recv.Disp.consume = spec.Consume
	w.faults = spec.Faults
	var mu sync.Mutex
	posPoll := map[string]bool{}
	actions := 0
	recvOps := 0
	var lastDisruptNs atomic.Int64 // written from hooks on many goroutines
	disrupt := func() {
		lastDisruptNs.Store(int64(w.vt()))
	}

	// ---- online monitors (C02)
	w.onStatus = func(name string, code int) {
		mu.Lock()
		defer mu.Unlock()
		if code == sts.ConfirmPassed || code == sts.ConfirmWaiting {
			posPoll[name] = true
			// the receiver answers positively only for content it holds validated
			st := filepath.Join(w.recv.StageDir, name)
			_, e1 := os.Stat(st + ".wait")
			_, e2 := os.Stat(filepath.Join(w.recv.FinalDir, targetName(w, name)))
			everDelivered := false
			for _, d := range append(w.recv.Disp.Events(), w.allDelivered()...) {
				if d.Rel == targetName(w, name) {
					everDelivered = true
				}
			}
			loggedRec := w.recv.Log.inner.WasReceived(name, "", time.Now().Add(-400*24*time.Hour), time.Now().Add(time.Hour))
			if e1 != nil && e2 != nil && !everDelivered && !loggedRec {
				out.statusBad = append(out.statusBad, fmt.Sprintf("%s answered %d but neither %s.wait nor a delivered/logged copy exists", name, code, name))
			}
		}
	}
	observe := func(name, path string, viaDone bool, cacheHash string) removeObs {
		ob := removeObs{Name: name, VT: w.vt(), Gen: w.sndGen, ViaDone: viaDone, CacheHash: cacheHash, At: time.Now()}
		if fi, serr := os.Stat(path); serr == nil {
			ob.SrcMTime = fi.ModTime()
		}
		b, err := os.ReadFile(path)
		if err == nil {
			ob.SrcMD5 = md5hex(b)
			ob.StillThere = true
		}
		// Store.Remove releases the bytes that are on disk right now; Cache.Done
		// releases the version the cache entry describes
		h := ob.SrcMD5
		if viaDone && cacheHash != "" {
			h = cacheHash
		}
		if h == "" {
			h = cacheHash
		}
		ob.HeldFinal, ob.HeldWait = w.receiverHolds(name, h)
		ob.PosPoll = posPoll[name]
		return ob
	}
	w.onRemove = func(name, path string) {
		mu.Lock()
		defer mu.Unlock()
		out.removes = append(out.removes, observe(name, path, false, ""))
	}
	w.onDone = func(name string, cf sts.Cached) {
		mu.Lock()
		defer mu.Unlock()
		out.dones = append(out.dones, observe(name, cf.GetPath(), true, cf.GetHash()))
	}

	// ---- disruption triggers
	mutate := func(m mutation) {
		f := spec.Files[m.File]
		cur := w.latestVersion(f.Name)
		now := time.Now()
		switch m.Kind {
		case "rewrite": // new content, same size, new mtime
			w.writeSource(f.Name, randBytes(rng, int64(len(cur.Data))), now)
		case "rewrite-same-second": // new content, same size, a modification time that differs only below the second
			t := cur.MTime.Truncate(time.Second).Add(time.Duration(rng.Int63n(int64(time.Second))))
			if t.Equal(cur.MTime) {
				t = t.Add(time.Nanosecond)
			}
			w.writeSource(f.Name, randBytes(rng, int64(len(cur.Data))), t)
		case "append":
			w.writeSource(f.Name, append(append([]byte{}, cur.Data...), randBytes(rng, 1+rng.Int63n(200))...), now)
		case "touch":
			w.writeSource(f.Name, cur.Data, now)
		case "rewrite-older": // other content, same size, an OLDER modification time (restore from backup, cp -p, rsync -t)
			if _, err := os.Stat(filepath.Join(w.outDir, f.Name)); err != nil {
				return
			}
			w.writeSource(f.Name, randBytes(rng, int64(len(cur.Data))), cur.MTime.Add(-time.Duration(1+rng.Intn(6000))*time.Second))
		case "touch-older": // same content, older modification time
			if _, err := os.Stat(filepath.Join(w.outDir, f.Name)); err != nil {
				return
			}
			w.writeSource(f.Name, cur.Data, cur.MTime.Add(-time.Duration(1+rng.Intn(6000))*time.Second))
		case "replace": // other size
			w.writeSource(f.Name, randBytes(rng, 1+rng.Int63n(int64(len(cur.Data))*2+1)), now)
		case "inplace": // content changes while size and mtime stay: invisible to the sender's change detection
			if _, err := os.Stat(filepath.Join(w.outDir, f.Name)); err != nil {
				return
			}
			w.writeSource(f.Name, randBytes(rng, int64(len(cur.Data))), cur.MTime)
		case "stage-overwrite": // a staged partial is damaged between two parts
			p := filepath.Join(w.recv.StageDir, f.Name+".part")
			b, err := os.ReadFile(p)
			if err != nil || len(b) == 0 {
				return
			}
			b[rng.Intn(len(b))] ^= 0x33
			_ = os.WriteFile(p, b, 0o644)
			w.recv.restamp()
			w.log.add(wEvent{Kind: "stage_overwrite", Name: f.Name})
		}
		out.mutationsHit++
		disrupt()
	}
	var pendingMut []mutation
	releasing := 0
	frozen := false // set while the run decides that everything is done and during the final stop: a file changed after the sender's last scan is nobody's fault
	w.onAction = func(kind string) {
		mu.Lock()
		actions++
		n := actions
		var todo []mutation
		for _, m := range spec.Mutations {
			if m.AtAction == n {
				pendingMut = append(pendingMut, m)
			}
		}
		// never between the sender's last look at a file and its removal (on any
		// goroutine): no file-system interface lets a program close that window
		switch kind {
		case "store:remove", "cache:done":
			releasing++
		case "store:remove:return", "cache:done:return":
			releasing--
		}
		if releasing == 0 && !frozen {
			todo, pendingMut = pendingMut, nil
		}
		crash := false
		for _, k := range spec.SenderCrashAt {
			if k == n && !frozen {
				// (not once the run has been found complete and the final graceful stop is
				// under way: a crash then is simply the end of the run)
				crash = true
			}
		}
		mu.Unlock()
		for _, m := range todo {
			mutate(m)
		}
		if crash {
			w.crashSender()
			out.senderCrash++
			for _, fi := range spec.VanishAtCrash {
				if fi < len(spec.Files) && w.vanishSource(spec.Files[fi].Name) {
					out.vanished++
				}
			}
			disrupt()
		}
	}
	installRecvHookNext := false
	_ = installRecvHookNext
	installRecvHook := func() {
		w.recv.Dom.Before = func(ev *vfs.Event) error {
			if !ev.Mut {
				return nil
			}
			mu.Lock()
			recvOps++
			n := recvOps
			fz := frozen
			mu.Unlock()
			for _, k := range spec.RecvCrashAt {
				if k == n && !fz {
					w.log.add(wEvent{Kind: "recv_crash_point", S: ev.Op + " " + filepath.Base(ev.Path), A: int64(n)})
					w.crashReceiver()
					out.recvCrash++
					disrupt()
				}
			}
			return nil
		}
	}
	installRecvHook()

	// ---- phase 0: an earlier run delivered the first n files
	w.writeFiles(spec.Files)

	// ---- phase 1: run with disruptions
	w.startSender()
	down := time.Duration(spec.Downtime) * time.Second
	if down == 0 {
		down = 20 * time.Second
	}
	allDone := func() bool {
		final := w.finalFiles()
		del := map[string]bool{}
		for _, d := range append(w.recv.Disp.Events(), w.allDelivered()...) {
			del[d.Rel+"|"+d.MD5] = true
		}
		for _, f := range spec.Files {
			v := w.latestVersion(f.Name)
			if v == nil || w.isGone(f.Name) {
				continue
			}
			if final[targetName(w, f.Name)] != v.MD5 && !(spec.Consume && del[targetName(w, f.Name)+"|"+v.MD5]) {
				return false
			}
		}
		// and the sender has recorded every file
		mu.Lock()
		defer mu.Unlock()
		cd := w.cacheOnDisk()
		for _, f := range spec.Files {
			done, known := cd[f.Name]
			_, serr := os.Stat(filepath.Join(w.outDir, f.Name))
			if serr == nil && !(known && done) {
				return false
			}
			if tag := w.tagOf(f.Name); serr == nil && tag != nil && tag.Delete && tag.DeleteDelay == 0 {
				return false // deletion is still to come (e.g. the file was touched and goes round again)
			}
		}
		return true
	}
	const bound = 3 * time.Hour
	quietDone := false
	for {
		time.Sleep(2 * time.Second)
		if w.snd.isDead() {
			time.Sleep(down)
			w.startSender()
			disrupt()
			continue
		}
		if w.recv.Dom.Dead() {
			synctest.Wait()
			out.crashImages++
			crashImageCheck(w, out, "crash image")
			time.Sleep(down)
			w.regMu.Lock()
			w.oldDelivered = append(w.oldDelivered, w.recv.Disp.Events()...)
			w.oldLogged = append(w.oldLogged, w.recv.Log.Recs()...)
			w.regMu.Unlock()
			installRecvHookNext = true
			w.restartReceiver()
			w.recv.Disp.consume = spec.Consume
			installRecvHook()
			listingSoundCheck(w, out)
			disrupt()
			continue
		}
		w.fmu.Lock()
		lf := w.lastFaultAt
		w.fmu.Unlock()
		if int64(lf) > lastDisruptNs.Load() {
			lastDisruptNs.Store(int64(lf))
		}
		mu.Lock()
		frozen = true
		mu.Unlock()
		if w.vt() > 30*time.Second && allDone() {
			if len(spec.QuietMutations) > 0 && !quietDone {
				mu.Lock()
				frozen = false
				mu.Unlock()
				// second act: new versions appear only now, so that two versions of a
				// name are never in flight together
				quietDone = true
				mu.Lock()
				out.recvOpsQuiet = recvOps
				mu.Unlock()
				if spec.QuietGapHours > 0 {
					time.Sleep(time.Duration(spec.QuietGapHours) * time.Hour)
					w.recv.restamp()
				}
				for _, m := range spec.QuietMutations {
					mutate(m)
				}
				continue
			}
			// stay a little longer: late duplicates, cleaner
			out.quiescentAt = w.vt()
			break
		}
		mu.Lock()
		frozen = false
		mu.Unlock()
		if w.vt()-time.Duration(lastDisruptNs.Load()) > bound {
			break
		}
	}
	// ---- phase 2: graceful stop
	mu.Lock()
	frozen = true
	mu.Unlock()
	w.snd.stop <- true
	out.lastDisrupt = time.Duration(lastDisruptNs.Load())
	out.terminated = w.snd.waitDone(2 * time.Hour)
	synctest.Wait()
	mu.Lock()
	out.actions = actions
	out.recvOps = recvOps
	mu.Unlock()
	out.final = w.finalFiles()
	out.staged = w.stagedFiles()
	out.sources = w.sourceFiles()
	out.cache = w.cacheOnDisk()
	out.delivered = append(w.allDelivered(), w.recv.Disp.Events()...)
	// the receive log as it is on disk (the wrapper's own records miss a line
	// written just before a crash parked the writer)
	w.recv.Log.inner.Parse(func(name, renamed, hash string, size int64, t time.Time) bool {
		out.logged = append(out.logged, loggedRec{Name: name, Renamed: renamed, Hash: hash, Size: size, At: t})
		return false
	}, time.Now().Add(-40*24*time.Hour), time.Now().Add(24*time.Hour))
	out.reqs = w.requests()
	out.events = w.log.snapshot()
	return out
}

// ---------------------------------------------------------------- oracles

type vfn func(prop, clause, fp, detail string)

// oracleIntegrity (C01): everything in the final directory / every delivery is a
// registered version with an announced hash and a log record
func oracleIntegrity(o *e2eOutcome, v vfn) {
	w := o.w
	announced := map[string]map[string]bool{}
	for _, r := range o.reqs {
		if r.Class != "data" {
			continue
		}
		for _, p := range r.Parts {
			if announced[p.Name] == nil {
				announced[p.Name] = map[string]bool{}
			}
			announced[p.Name][p.Hash] = true
		}
	}
	logged := map[string]bool{}
	for _, l := range o.logged {
		logged[l.Name+"|"+l.Hash] = true
	}
	srcOf := map[string]string{}
	for _, f := range o.spec.Files {
		srcOf[targetName(w, f.Name)] = f.Name
	}
	check := func(rel, md5, where string) {
		if strings.HasSuffix(rel, ".lck") {
			return
		}
		name, ok := srcOf[rel]
		if !ok {
			v("C01", "final-is-source-version", "final-unknown-name", fmt.Sprintf("%s: %s does not correspond to any source file", where, rel))
			return
		}
		if !w.isVersion(name, md5) {
			v("C01", "final-is-source-version", "final-not-a-version", fmt.Sprintf("%s: %s (md5 %s) is not byte-identical to any version the source file %s ever had", where, rel, md5, name))
			return
		}
		if !announced[name][md5] {
			v("C01", "hash-announced", "final-hash-never-announced", fmt.Sprintf("%s: %s has md5 %s which the sender never announced for %s", where, rel, md5, name))
		}
		if !logged[name+"|"+md5] {
			v("C01", "hash-logged", "final-not-logged", fmt.Sprintf("%s: %s (md5 %s) has no receive-log record (%s, that hash)", where, rel, md5, name))
		}
	}
	for rel, md5 := range o.final {
		check(rel, md5, "final directory at quiescence")
	}
	for _, d := range o.delivered {
		check(d.Rel, d.MD5, fmt.Sprintf("delivery event #%d", d.Seq))
	}
}

// oraclePollTiming (C02): a status poll for a version is made only after all
// bytes of that version were transmitted or found already held.  (The start-up
// recovery poll of a restarted sender is exempt: it asks precisely because it
// does not know.)
func oraclePollTiming(o *e2eOutcome, v vfn) {
	firstScan := map[int]int{} // generation -> seq of its first scan
	for _, e := range o.events {
		if e.Kind == "scan" {
			if _, ok := firstScan[e.Gen]; !ok {
				firstScan[e.Gen] = e.Seq
			}
		}
	}
	for _, q := range o.reqs {
		if q.Class != "poll" {
			continue
		}
		fs, scanned := firstScan[q.Gen]
		if !scanned || q.Seq < fs {
			continue // recovery phase
		}
		for name, hash := range q.Hashes {
			var rs []iv
			var size int64 = -1
			for _, d := range o.reqs {
				if d.Seq > q.Seq {
					continue
				}
				switch d.Class {
				case "data":
					for pi, p := range d.Parts {
						if p.Name == name && p.Hash == hash {
							size = p.Size
							if pi < len(d.Acked) && d.Acked[pi] {
								rs = append(rs, iv{p.Beg, p.End})
							}
						}
					}
				case "partials":
					for _, p := range d.Parts {
						if p.Name == name && p.Hash == hash && p.End > p.Beg {
							rs = append(rs, iv{p.Beg, p.End})
						}
					}
				case "recovery":
					// "found already held": the receiver reported these leading parts as on record
					if d.Err == "" {
						for pi, p := range d.Parts {
							if pi < d.N && p.Name == name && p.Hash == hash {
								rs = append(rs, iv{p.Beg, p.End})
							}
						}
					}
				}
			}
			// the bytes the sender had to send for what it asks about (the cache
			// entry's size can lag behind the content that was hashed; then the
			// descriptor is (hash of the new content, old size) and the receiver's
			// validation sorts it out)
			// The size of the version asked about is the size of the registered source
			// version with that hash (since the hash/size mismatch of files that grow
			// while they are hashed was repaired in /repo the sender only ever
			// announces consistent pairs); the size carried by the poll's own record
			// is what a wrong tracker would get wrong, so it is only the fallback.
			truth := int64(-1)
			o.w.regMu.Lock()
			for _, ver := range o.w.registry[name] {
				if ver.MD5 == hash {
					truth = int64(len(ver.Data))
				}
			}
			o.w.regMu.Unlock()
			if truth > 0 {
				size = truth
			} else if qs := q.Sizes[name]; qs > 0 {
				size = qs
			}
			if deliveredVersion(o, name, hash) && covered(rs) == 0 {
				continue // found already held as a whole (duplicate of a delivered version)
			}
			if got := covered(rs); got < size {
				// known: the tracker counts bytes per name, not ranges, so parts that are
				// in flight twice are counted twice
				var sum int64
				for _, r := range rs {
					sum += r.e - r.b
				}
				fp := "polled-before-fully-transmitted"
				if sum >= size {
					fp = "polled-on-byte-count-with-duplicate-parts"
				} else if mixedDescriptors(o, name, hash, q.Gen) ||
					(truth > 0 && q.Sizes[name] > 0 && q.Sizes[name] != truth && o.w.isVersionSize(name, q.Sizes[name]) && lateOtherVersionPayload(o, name, hash, q.Gen, q.At)) {
					// (second clause: the poll pairs this hash with ANOTHER version's size, and a
					// payload of that other version was answered after the cache entry switched -
					// the third face of the in-place cache update)
					fp = "sent-with-descriptor-mixing-two-versions"
				}
				v("C02", "poll-after-all-bytes-transmitted", fp, fmt.Sprintf("poll request #%d asks about %s (hash %s) when the receiver had acknowledged only %d of its %d bytes (bytes acknowledged counting repeats: %d)", q.ID, name, hash, got, size, sum))
			}
		}
	}
}

// mixedDescriptors: did sender generation gen put parts of (name, hash) on the wire whose
// descriptors do not describe one consistent transmission of that version - a send size
// smaller than the file size although the file was not queued as a resumed one, or a
// first part that does not start at offset 0 (the hash switched in the middle of a
// file)?  That is the signature of the cache entry being updated in place under a
// queued transmission (known finding); a tracker or poller that is wrong on its own
// shows premature records with perfectly consistent descriptors.
func mixedDescriptors(o *e2eOutcome, name, hash string, gen int) bool {
	resumed := false
	for _, e := range o.events {
		if e.Kind == "q_push" && e.Name == name && e.Gen == gen && e.S == "recovered" {
			resumed = true
		}
	}
	if resumed {
		// which version was resumed?  (the one the receiver reported a partial of)
		same := false
		for _, d := range o.reqs {
			if d.Class == "partials" && d.Gen == gen {
				for _, p := range d.Parts {
					if p.Name == name && p.Hash == hash {
						same = true
					}
				}
			}
		}
		if same {
			return false // a send size below the file size is what resuming means
		}
		// another version was resumed: parts of THIS hash that carry a reduced send
		// size come from the resumed entry of the other version
		for _, d := range o.reqs {
			if d.Class != "data" || d.Gen != gen {
				continue
			}
			for _, p := range d.Parts {
				if p.Name == name && p.Hash == hash && p.Send > 0 && p.Send < p.Size {
					return true
				}
			}
		}
		return false
	}
	truth := int64(-1)
	o.w.regMu.Lock()
	for _, ver := range o.w.registry[name] {
		if ver.MD5 == hash {
			truth = int64(len(ver.Data))
		}
	}
	o.w.regMu.Unlock()
	// what the receiver was told differs from what the part said when the request
	// began: the hash of a queued part changed between the two
	for _, d := range o.reqs {
		if d.Class != "data" || d.Gen != gen {
			continue
		}
		for _, p := range d.Parts {
			if p.Name == name && p.Hash0 != "" && (p.Hash == hash || p.Hash0 == hash) {
				return true
			}
		}
	}
	first := true
	for _, d := range o.reqs {
		if d.Class != "data" || d.Gen != gen {
			continue
		}
		for _, p := range d.Parts {
			if p.Name != name || p.Hash != hash {
				continue
			}
			if p.Send > 0 && p.Send < p.Size {
				return true
			}
			if truth > 0 && p.Size != truth {
				return true // this hash announced with another version's file size
			}
			if first && p.Beg > 0 {
				return true
			}
			first = false
		}
	}
	return false
}

// lateOtherVersionPayload: a data request that told the receiver ANOTHER hash for parts of
// the name was answered after the sender's cache entry had switched to 'hash' and before
// virtual time vt.  (Its parts then report the new hash to the tracker with the old
// version's send size: the third face of the in-place cache update.)
func lateOtherVersionPayload(o *e2eOutcome, name, hash string, gen int, vt time.Duration) bool {
	switched := time.Duration(-1)
	for _, e := range o.events {
		if e.Kind == "cache_add" && e.Name == name && e.S == hash && e.Gen == gen {
			switched = e.VT
			break
		}
	}
	if switched < 0 {
		return false
	}
	for _, d := range o.reqs {
		if d.Class != "data" || d.Gen != gen || d.End <= switched || d.End > vt {
			continue
		}
		for pi, p := range d.Parts {
			if p.Name == name && p.Hash != hash && pi < len(d.Acked) && d.Acked[pi] {
				return true
			}
		}
	}
	return false
}

// oracleSentLog (C02 / C08): the sender records a version as sent (sent log, hand-over
// to the poller) only when every byte of it has been acknowledged by the receiver or
// was reported held by it.  Judged at the moment of the record, against the true
// size of the registered version with that hash.
func oracleSentLog(o *e2eOutcome, v vfn) {
	firstScan := map[int]int{}
	for _, e := range o.events {
		if e.Kind == "scan" {
			if _, ok := firstScan[e.Gen]; !ok {
				firstScan[e.Gen] = e.Seq
			}
		}
	}
	for _, e := range o.events {
		if e.Kind != "sent_logged" {
			continue
		}
		if fs, ok := firstScan[e.Gen]; !ok || e.Seq < fs {
			continue
		}
		name, hash := e.Name, e.S
		truth := int64(-1)
		o.w.regMu.Lock()
		for _, ver := range o.w.registry[name] {
			if ver.MD5 == hash {
				truth = int64(len(ver.Data))
			}
		}
		o.w.regMu.Unlock()
		if truth <= 0 {
			continue
		}
		var rs, rsOther []iv              // acknowledged ranges under this hash / under other hashes of the same name (same sender instance)
		announcedSend := map[int64]bool{} // "bytes to send for this file" as the part descriptors themselves said
		for _, d := range o.reqs {
			if d.End == 0 || d.End > e.VT {
				continue // no answer yet when the record was made
			}
			switch d.Class {
			case "data":
				for pi, p := range d.Parts {
					if p.Name == name && p.Hash == hash && pi < len(d.Acked) && d.Acked[pi] {
						rs = append(rs, iv{p.Beg, p.End})
						announcedSend[p.Send] = true
					} else if p.Name == name && d.Gen == e.Gen && pi < len(d.Acked) && d.Acked[pi] {
						rsOther = append(rsOther, iv{p.Beg, p.End})
					}
				}
			case "partials":
				for _, p := range d.Parts {
					if p.Name == name && p.Hash == hash && p.End > p.Beg {
						rs = append(rs, iv{p.Beg, p.End})
					}
				}
			case "recovery":
				if d.Err == "" {
					for pi, p := range d.Parts {
						if pi < d.N && p.Name == name && p.Hash == hash {
							rs = append(rs, iv{p.Beg, p.End})
						}
					}
				}
			}
		}
		if deliveredVersion(o, name, hash) && covered(rs) == 0 {
			continue
		}
		if got := covered(rs); got < truth {
			var sum int64
			for _, r := range rs {
				sum += r.e - r.b
			}
			fp := "logged-sent-before-fully-transmitted"
			if sum >= truth {
				fp = "polled-on-byte-count-with-duplicate-parts" // same root: bytes are added up per name, not ranges
			} else if mix := covered(append(append([]iv{}, rs...), rsOther...)); mixedDescriptors(o, name, hash, e.Gen) || (e.A != truth && o.w.isVersionSize(name, e.A) && lateOtherVersionPayload(o, name, hash, e.Gen, e.VT)) ||
				(announcedSend[e.A] && e.A < truth && mix >= e.A) || mix >= truth {
				// known: the transmission itself mixed two versions (the cache entry a queued
				// file points to is updated in place when the file is hashed again); the
				// tracker did what the descriptors told it
				fp = "sent-with-descriptor-mixing-two-versions"
			}
			v("C02", "poll-after-all-bytes-transmitted", fp, fmt.Sprintf("%s (hash %s, %d bytes) was recorded as sent (%d bytes logged) at %s when the receiver had acknowledged only %d of its bytes (counting repeats: %d)", name, hash, truth, e.A, e.VT, got, sum))
		}
	}
}

// oracleRelease (C02): releases only after validated receipt
func oracleRelease(o *e2eOutcome, v vfn) {
	for _, s := range o.statusBad {
		v("C02", "positive-answer-needs-validated-copy", "status-positive-without-copy", s)
	}
	for _, r := range append(append([]removeObs{}, o.removes...), o.dones...) {
		what := "Store.Remove"
		if r.ViaDone {
			what = "Cache.Done"
		}
		if !r.StillThere {
			continue // nothing left to lose (file vanished before)
		}
		if !r.ViaDone {
			// the tag's deletion settings: off means never, a delay means not before the
			// file is that old
			if tag := o.w.tagOf(r.Name); tag == nil || !tag.Delete {
				v("C02", "deleted-only-when-configured", "deleted-although-delete-is-off", fmt.Sprintf("Store.Remove of %s at %s: the tag that matches the name does not delete", r.Name, r.VT))
			} else if tag.DeleteDelay > 0 && !r.SrcMTime.IsZero() && r.At.Sub(r.SrcMTime) <= tag.DeleteDelay {
				v("C02", "deleted-only-after-delete-delay", "deleted-before-delete-delay", fmt.Sprintf("Store.Remove of %s at %s: the file was modified %s before, the tag's delete-delay is %s", r.Name, r.VT, r.At.Sub(r.SrcMTime), tag.DeleteDelay))
			}
		}
		if !(r.HeldFinal || r.HeldWait) {
			fp := "release-without-validated-copy"
			if !r.ViaDone {
				fp = "delete-without-validated-copy"
			}
			// known pattern: a restarted sender polls by NAME for a version it never
			// transmitted, and the receiver answers for an older version of that name
			relHash := r.SrcMD5
			if r.ViaDone && r.CacheHash != "" {
				relHash = r.CacheHash
			}
			// every name-only-poll pattern rests on a positive answer given AFTER the sender
			// had hashed the released version (it asked about that version and was answered
			// for another one); a release without such an answer is something else
			polledSince := hashedBefore(o, r.Name, relHash, lastPositivePoll(o, r.Name, r.VT))
			if !polledSince {
				// unclassified
			} else if r.Gen >= 2 && !everTransmitted(o, r.Name, relHash) && otherVersionHeld(o, r.Name, relHash) {
				fp = "released-after-restart-on-name-only-poll"
			} else if claimedUnseen(o, r.Name, relHash) {
				// the receiver told the sender that it holds parts of this version which it
				// never received: not the name-only-poll pattern, the answer itself was wrong
				fp = "released-after-receiver-claimed-unseen-parts"
			} else if anyPartSent(o, r.Name, relHash) && otherVersionHeld(o, r.Name, relHash) && !completedAtReceiver(o, r.Name, relHash, lastPositivePoll(o, r.Name, r.VT)) {
				// known pattern: the released version never became complete at the receiver
				// (its record was started over by parts of another version arriving in
				// between, or the sender counted its bytes wrongly), so the receiver never
				// reached a verdict on it; the poll, which goes by NAME only, was answered
				// for the other version of that name the receiver holds.  (A version that
				// WAS completely received and is then answered wrongly is not this pattern.)
				fp = "released-on-name-only-poll-for-version-incomplete-at-receiver"
			} else if otherVersionHeld(o, r.Name, relHash) && olderReceivedOver(o, r.Name, relHash, lastPositivePoll(o, r.Name, r.VT)) {
				// known pattern, same root: the released version was received completely, but
				// before the receiver reached its verdict a late retransmission of an OLDER
				// version of the name (a payload queued before the file changed) arrived and
				// started the per-name record over; the receiver validated and kept the older
				// version and the name-only poll was answered for it
				fp = "released-on-name-only-poll-after-older-version-retransmitted-over-newer"
			}
			v("C02", "validated-copy-exists-at-release", fp, fmt.Sprintf("%s of %s at %s (sender generation %d): content on disk md5 %s, cache entry hash %s, but the receiver holds no validated copy of the released version (final: %v, waiting: %v)", what, r.Name, r.VT, r.Gen, r.SrcMD5, r.CacheHash, r.HeldFinal, r.HeldWait))
		}
		if !r.PosPoll {
			v("C02", "positive-poll-before-release", "release-without-positive-poll", fmt.Sprintf("%s of %s at %s: no positive poll answer was ever given for that name", what, r.Name, r.VT))
		}
	}
}

// everTransmitted: did the receiver ever acknowledge every byte of (name, hash)?
// anyPartSent: the sender put at least one part of (name, hash) into a data request
func anyPartSent(o *e2eOutcome, name, hash string) bool {
	for _, q := range o.reqs {
		if q.Class == "data" {
			for _, p := range q.Parts {
				if p.Name == name && p.Hash == hash {
					return true
				}
			}
		}
	}
	for _, e := range o.events {
		if e.Kind == "recv_part" && e.Name == name && e.S == hash {
			return true
		}
	}
	return false
}

func everTransmitted(o *e2eOutcome, name, hash string) bool {
	var rs []iv
	var size int64 = -1
	for _, q := range o.reqs {
		if q.Class != "data" {
			continue
		}
		for pi, p := range q.Parts {
			if p.Name == name && p.Hash == hash {
				size = p.Size
				if pi < len(q.Acked) && q.Acked[pi] {
					rs = append(rs, iv{p.Beg, p.End})
				}
			}
		}
	}
	return size >= 0 && covered(rs) >= size
}

// completedAtReceiver: did the receiver's record of (name, hash) ever cover the
// whole file, i.e. did that version get as far as validation?  The record of a
// name starts over whenever a part with another hash arrives.
// claimedUnseen: did the receiver answer a "which of these parts do you hold" request
// with a count that includes a part of (name, hash) of which it had received no byte?
func claimedUnseen(o *e2eOutcome, name, hash string) bool {
	for _, d := range o.reqs {
		if d.Class != "recovery" || d.Err != "" {
			continue
		}
		for pi, p := range d.Parts {
			if pi >= d.N || p.Name != name || p.Hash != hash {
				continue
			}
			seen := false
			for _, e := range o.events {
				if e.Seq > d.Seq+1000000 {
					break
				}
				if e.Kind == "recv_part" && e.Name == name && e.S == hash && e.VT <= d.End && e.A < p.End && e.B > p.Beg {
					seen = true
					break
				}
			}
			if !seen && !deliveredVersion(o, name, hash) {
				return true
			}
		}
	}
	return false
}

// hashedBefore: the sender's cache took in (name, hash) before event number seq
func hashedBefore(o *e2eOutcome, name, hash string, seq int) bool {
	if seq < 0 {
		return false
	}
	for _, e := range o.events {
		if e.Seq >= seq {
			break
		}
		if e.Kind == "cache_add" && e.Name == name && e.S == hash {
			return true
		}
	}
	return false
}

// lastPositivePoll: sequence number of the latest positive poll answer for the
// name given before virtual time vt (the answer the release rests on); -1 if none
func lastPositivePoll(o *e2eOutcome, name string, vt time.Duration) int {
	seq := -1
	for _, e := range o.events {
		if e.Kind == "poll_code" && e.Name == name && e.VT <= vt && (e.A == int64(sts.ConfirmPassed) || e.A == int64(sts.ConfirmWaiting)) {
			seq = e.Seq
		}
	}
	return seq
}

// (only parts received before event number upTo count; upTo < 0: all)
func completedAtReceiver(o *e2eOutcome, name, hash string, upTo int) bool {
	// size announced with each received part (a growing file can be sent twice
	// under one hash with two sizes; the receiver starts over then, too)
	sizeOf := map[int]map[[2]int64]int64{}
	for _, q := range o.reqs {
		if q.Class != "data" {
			continue
		}
		for _, p := range q.Parts {
			if p.Name == name {
				if sizeOf[q.ID] == nil {
					sizeOf[q.ID] = map[[2]int64]int64{}
				}
				sizeOf[q.ID][[2]int64{p.Beg, p.End}] = p.Size
			}
		}
	}
	cur := ""
	var rs []iv
	for _, e := range o.events {
		if e.Kind != "recv_part" || e.Name != name {
			continue
		}
		if upTo >= 0 && e.Seq > upTo {
			break
		}
		size := sizeOf[e.Req][[2]int64{e.A, e.B}]
		key := fmt.Sprintf("%s/%d", e.S, size)
		if key != cur {
			cur, rs = key, nil
		}
		rs = append(rs, iv{e.A, e.B})
		if e.S == hash && size > 0 && covered(rs) >= size {
			return true
		}
	}
	return false
}

// olderReceivedOver: after the last part of version 'hash' of the name had been received
// and before event 'upTo', the receiver received a part of an older version of the name
// (older = written to the source earlier)
func olderReceivedOver(o *e2eOutcome, name, hash string, upTo int) bool {
	idx := map[string]int{}
	n := 0
	for _, e := range o.events {
		if e.Kind == "write_source" && e.Name == name {
			if _, ok := idx[e.S]; !ok {
				n++
				idx[e.S] = n
			}
		}
	}
	mine, ok := idx[hash]
	if !ok {
		return false
	}
	seen := false
	for _, e := range o.events {
		if e.Kind != "recv_part" || e.Name != name {
			continue
		}
		if upTo >= 0 && e.Seq > upTo {
			break
		}
		if e.S == hash {
			seen = true
		} else if i, ok := idx[e.S]; ok && seen && i < mine {
			return true
		}
	}
	return false
}

// otherVersionHeld: the receiver delivered / logged another version of that name
func otherVersionHeld(o *e2eOutcome, name, hash string) bool {
	for _, d := range o.delivered {
		if d.Rel == targetName(o.w, name) && d.MD5 != hash {
			return true
		}
	}
	for _, l := range o.logged {
		if l.Name == name && l.Hash != hash {
			return true
		}
	}
	return false
}

// versionsInterleaved: parts of two versions of the name reached the receiver (or
// the sender's tracker) interleaved: A ... B ... A
func versionsInterleaved(o *e2eOutcome, name string) bool {
	// parts of an older version of the name (in the order the versions were written)
	// received after parts of a newer one: both were in flight at the same time and
	// the receiver, which keys everything by name, cannot tell which is the newer
	idx := map[string]int{}
	n := 0
	for _, e := range o.events {
		if e.Kind == "write_source" && e.Name == name {
			if _, ok := idx[e.S]; !ok {
				n++
				idx[e.S] = n
			}
		}
	}
	high := 0
	for _, e := range o.events {
		if e.Kind == "recv_part" && e.Name == name {
			i, ok := idx[e.S]
			if !ok {
				continue
			}
			if i < high {
				return true
			}
			if i > high {
				high = i
			}
		}
	}
	// the same thing where the receiver cannot see it: a request that was opened with
	// chunks of one version of the name (queued before the file changed) is still in flight
	// when the sender hashes the next version.  The cache entry is updated in place, so
	// these chunks are announced - and counted by the sender's tracker - under the NEW
	// hash with the size they were queued with (the in-place-update finding of C02)
	for _, e := range o.events {
		if e.Kind != "cache_add" || e.Name != name {
			continue
		}
		for _, q := range o.reqs {
			if q.Class != "data" || q.Gen != e.Gen || q.At >= e.VT || (q.End != 0 && q.End <= e.VT) {
				continue
			}
			for _, p := range q.Parts {
				if p.Name == name && p.Hash0 != "" && p.Hash0 != e.S {
					return true
				}
			}
		}
	}
	return false
}

// oracleProgress (C03): bounded progress after the last disruption
func oracleProgress(o *e2eOutcome, v vfn) {
	w := o.w
	if !o.terminated {
		v("C03", "terminates", "stuck-graceful-stop", "graceful stop after the failure-free period did not terminate within 2 virtual hours; broker goroutines: "+brokerGoroutines())
		return
	}
	del := map[string]bool{}
	for _, d := range o.delivered {
		del[d.Rel+"|"+d.MD5] = true
	}
	for _, f := range o.spec.Files {
		if w.isGone(f.Name) {
			continue // removed at the source before it was delivered: nothing to deliver
		}
		ver := w.latestVersion(f.Name)
		tgt := targetName(w, f.Name)
		if o.final[tgt] != ver.MD5 && !(o.spec.Consume && del[tgt+"|"+ver.MD5]) {
			state := "absent"
			if m, ok := o.final[tgt]; ok {
				state = "present with md5 " + m
				if w.isVersion(f.Name, m) {
					state += " (an older version)"
				}
			}
			fp := "undelivered"
			if m, ok := o.final[tgt]; ok && w.isVersion(f.Name, m) && len(o.spec.Mutations) > 0 {
				// known: versions of one name share the staged body / companion, and polls go by name
				fp = "newer-version-stranded-behind-delivered-older-version"
			}
			if fp == "undelivered" && len(o.spec.Mutations) > 0 {
				// held (validated, .wait) behind a predecessor that is itself a casualty
				prev := ""
				for _, q := range o.reqs {
					if q.Class == "data" {
						for _, p := range q.Parts {
							if p.Name == f.Name {
								prev = p.Prev
							}
						}
					}
				}
				if pv := w.latestVersion(prev); prev != "" && pv != nil && o.final[targetName(w, prev)] != pv.MD5 {
					for _, st := range stagedOf(o.staged, f.Name) {
						if strings.HasSuffix(st, ".wait") {
							fp = "held-behind-undelivered-predecessor"
						}
					}
				}
			}
			if fp == "undelivered" && versionsInterleaved(o, f.Name) {
				fp = "versions-interleaved-in-flight"
			}
			if m, ok := o.final[tgt+".lck"]; ok && m == ver.MD5 && o.recvCrash > 0 {
				fp = "left-under-temporary-name-after-receiver-crash"
				state += "; " + tgt + ".lck holds the file"
			}
			v("C03", "delivered-within-bound", fp, fmt.Sprintf("%s: latest version (md5 %s) not delivered %s after the last disruption (final: %s); staged: %v", f.Name, ver.MD5, w.vt()-o.lastDisrupt, state, stagedOf(o.staged, f.Name)))
			continue
		}
		done, known := o.cache[f.Name]
		_, serr := os.Stat(filepath.Join(w.outDir, f.Name))
		if serr == nil && !(known && done) && versionsInterleaved(o, f.Name) {
			v("C03", "confirmed-within-bound", "versions-interleaved-in-flight", fmt.Sprintf("%s delivered but never confirmed: parts of two versions were in flight interleaved", f.Name))
		} else if serr == nil && !(known && done) {
			v("C03", "confirmed-within-bound", "unconfirmed", fmt.Sprintf("%s delivered but not marked done in the persisted queue cache (known=%v done=%v)", f.Name, known, done))
		}
		tag := w.tagOf(f.Name)
		if tag.Delete && tag.DeleteDelay == 0 && serr == nil {
			v("C03", "deleted-within-bound", "undeleted", fmt.Sprintf("%s confirmed but still in the outgoing directory although deletion is configured", f.Name))
		}
		// (left-over partial duplicates of a delivered file are debris for the
		// 24 h stray cleaner - C20 - not an undelivered file; only counted)
		if st := stagedOf(o.staged, f.Name); len(st) > 0 {
			o.debris++
		}
	}
}

func stagedOf(staged []string, name string) []string {
	var out []string
	for _, s := range staged {
		for _, ext := range []string{".part", ".cmp", ".full", ".wait", ".cmp.lck"} {
			if s == name+ext {
				out = append(out, s)
			}
		}
	}
	return out
}

// oracleOnce (C05): each validated version is delivered and logged once
func oracleOnce(o *e2eOutcome, v vfn) {
	cnt := map[string]int{}
	for _, d := range o.delivered {
		cnt[d.Rel+"|"+d.MD5]++
	}
	for k, n := range cnt {
		if n > 1 {
			v("C05", "delivered-once", "delivered-twice", fmt.Sprintf("%s was delivered %d times", k, n))
		}
	}
	// ... also when the instance died before it could tell anybody: what the file system
	// saw arrive under a final name (the same version must not arrive there twice)
	mc := map[string]int{}
	for _, m := range o.w.recv.movesIntoFinal() {
		mc[m.Rel+"|"+m.MD5]++
	}
	for k, n := range mc {
		if n > 1 {
			v("C05", "delivered-once", "moved-into-final-twice", fmt.Sprintf("%s was moved into the final directory %d times (receiver crashes: %d)", k, n, o.recvCrash))
		}
	}
	lc := map[string]int{}
	for _, l := range o.logged {
		lc[l.Name+"|"+l.Hash]++
	}
	for k, n := range lc {
		if n > 1+o.recvCrash {
			v("C05", "logged-once", "logged-twice", fmt.Sprintf("%s has %d receive-log records (receiver crashes: %d)", k, n, o.recvCrash))
		}
	}
}

// oracleLedger (C08): after a failed data request the sender treats exactly the
// leading parts the receiver recorded as transmitted and sends exactly the rest again
func oracleLedger(o *e2eOutcome, v vfn) {
	// recorded ranges per (name, hash) as acknowledged by the real Stage
	type key struct{ name, hash string }
	recorded := map[key][]iv{}
	// sent-log and first poll: only when every byte to send was acknowledged
	sendSize := map[key]int64{}
	reqByID := map[int]*wRequest{}
	for _, r := range o.reqs {
		reqByID[r.ID] = r
	}
	for _, e := range o.events {
		switch e.Kind {
		case "recv_part":
			k := key{e.Name, e.S}
			recorded[k] = append(recorded[k], iv{e.A, e.B})
		case "sent_logged":
			k := key{e.Name, e.S}
			need := sendSize[k]
			var got int64
			// bytes acknowledged so far (deduplicated)
			got = covered(recorded[k])
			if need > 0 && got < need {
				// known (same root as the C02 finding): the tracker adds up acknowledged BYTES per
				// name, so a version that is in flight twice (queued again after a touch, or by the
				// validation-retry path) reaches its size on parts that were acknowledged twice
				var sum int64
				for _, r := range recorded[k] {
					sum += r.e - r.b
				}
				fp := "sent-logged-early"
				if sum >= need {
					fp = "sent-logged-on-byte-count-with-duplicate-parts"
				}
				v("C08", "sent-only-when-all-bytes-acknowledged", fp, fmt.Sprintf("%s (hash %s) written to the sent log with %d of %d bytes acknowledged by the receiver (counting repeats: %d)", e.Name, e.S, got, need, sum))
			}
		case "data_req":
			if r := reqByID[e.Req]; r != nil {
				for _, p := range r.Parts {
					k := key{p.Name, p.Hash}
					if p.Send > sendSize[k] || sendSize[k] == 0 {
						sendSize[k] = p.Send
					}
				}
			}
		}
	}
	// follow-up discipline: for each failed data request, what did the receiver
	// report as recorded (count in the partial-content answer, else the answer to
	// the sender's explicit question), and what did the sender send afterwards?
	all := o.reqs
	everAcked := map[string]bool{} // name|hash|beg|end acknowledged in some earlier request
	for i, r := range all {
		if r.Class != "data" {
			continue
		}
		for pi, p := range r.Parts {
			if pi < len(r.Acked) && r.Acked[pi] {
				everAcked[fmt.Sprintf("%s|%s|%d|%d", p.Name, p.Hash, p.Beg, p.End)] = true
			}
		}
		if r.Err == "" {
			continue
		}
		nrec := -1
		if r.N > 0 {
			nrec = r.N
		} else {
			for _, q := range all[i+1:] {
				if q.Class == "recovery" && q.Gen == r.Gen && q.Err == "" && sameParts(q.Parts, r.Parts) {
					nrec = q.N
					break
				}
			}
		}
		if nrec < 0 {
			continue // the sender never learned a count (stopped, crashed): nothing to judge
		}
		// the reported count must be truthful: those parts are on record
		for pi := 0; pi < nrec && pi < len(r.Parts); pi++ {
			p := r.Parts[pi]
			if !everAcked[fmt.Sprintf("%s|%s|%d|%d", p.Name, p.Hash, p.Beg, p.End)] && !deliveredVersion(o, p.Name, p.Hash) {
				v("C08", "reported-count-is-truthful", "receiver-over-reports", fmt.Sprintf("request #%d: the receiver reported %d leading parts recorded, but part %d %s%s was never acknowledged by Receive", r.ID, nrec, pi, p.Name, fmtIv(p.Beg, p.End)))
			}
		}
		var later []*wRequest
		for _, q := range all[i+1:] {
			if q.Class == "data" {
				later = append(later, q)
			}
		}
		for pi, p := range r.Parts {
			resent := false
			for _, l := range later {
				if l.Gen != r.Gen {
					break // a restarted sender follows the recovery rules (C07)
				}
				for _, lp := range l.Parts {
					if lp.Name == p.Name && lp.Hash == p.Hash && lp.Beg < p.End && p.Beg < lp.End {
						resent = true
					}
				}
			}
			sentLater := resent // transmitted in a later request at all: not abandoned
			if resent {
				// the same version can be queued several times (touched between scans): each
				// queue entry is sent once in its own right.  A part counts as sent AGAIN only
				// if it went out more often than the name was queued
				pushes, carried := 0, 0
				for _, e := range o.events {
					if e.Kind == "q_push" && e.Name == p.Name && e.Gen == r.Gen {
						pushes++
					}
				}
				// a transmission that the receiver did not report as recorded (the request
				// failed before this part, or was cut off with nothing on record) entitles
				// the sender to one more: the retry of THAT request is not a second sending
				// of what this request got recorded.  The last transmission entitles nothing
				unrecorded, lastUnrecorded := 0, false
				for qi, q := range o.reqs {
					if q.Class != "data" || q.Gen != r.Gen {
						continue
					}
					for qpi, qp := range q.Parts {
						if qp.Name == p.Name && qp.Hash == p.Hash && qp.Beg < p.End && p.Beg < qp.End {
							carried++
							lastUnrecorded = !reportedRecorded(o.reqs, qi, qpi)
							if lastUnrecorded {
								unrecorded++
							}
							break
						}
					}
				}
				if lastUnrecorded {
					unrecorded--
				}
				if carried <= pushes+unrecorded {
					resent = false
				}
			}
			changed := fileChangedAfter(o, p.Name, p.Hash)
			// written again (content or just the modification time) after the scan that
			// found the version this request carried: a new version for the sender, sent
			// again as a whole
			found, scanBegin := 0, 0
			for _, e := range o.events {
				if e.Seq >= r.Seq {
					break
				}
				if e.Kind == "scan" {
					scanBegin = int(e.B)
				}
				if e.Kind == "cache_add" && e.Name == p.Name {
					found = scanBegin
				}
			}
			for _, e := range o.events {
				if e.Kind == "write_source" && e.Name == p.Name && e.Seq > found {
					changed = true
				}
			}
			// confirmed (an identical copy was validated at the receiver) and released after
			// this request began: there is nothing left to send, possibly no file either
			released := false
			for _, e := range o.events {
				if (e.Kind == "cache_done" || e.Kind == "remove") && e.Name == p.Name && e.Seq > r.Seq {
					released = true
				}
			}
			if pi >= nrec && !sentLater && !changed && !released && o.terminated && !senderCrashedAfter(o, r) {
				v("C08", "remainder-sent-again", "part-abandoned", fmt.Sprintf("request #%d (%s) failed with %d leading parts reported as recorded; part %d %s%s was never sent again", r.ID, r.Fault, nrec, pi, p.Name, fmtIv(p.Beg, p.End)))
			}
			if pi < nrec && resent && !changed && !failedValidation(o, p.Name) {
				fp := "recorded-part-resent"
				if r.N > 0 {
					fp = "recorded-part-resent-after-partial-content-answer"
				}
				v("C08", "only-remainder-sent-again", fp, fmt.Sprintf("request #%d (%s) failed; the receiver reported its first %d parts as recorded (count in the answer: %d) yet part %d %s%s was transmitted again", r.ID, r.Fault, nrec, r.N, pi, p.Name, fmtIv(p.Beg, p.End)))
			}
		}
	}
}

// reportedRecorded: did the sender learn that part pi of data request all[i] is on record
// at the receiver (the request succeeded, or the part lies within the count of leading
// parts in its partial-content answer or in the answer to the recovery request for it)?
func reportedRecorded(all []*wRequest, i, pi int) bool {
	r := all[i]
	if r.Err == "" {
		return true
	}
	if r.N > 0 {
		return pi < r.N
	}
	for _, q := range all[i+1:] {
		if q.Class == "recovery" && q.Gen == r.Gen && q.Err == "" && sameParts(q.Parts, r.Parts) {
			return pi < q.N
		}
	}
	return false
}

func sameParts(a, b []partRec) bool {
	if len(a) != len(b) {
		return false
	}
	for i := range a {
		if a[i].Name != b[i].Name || a[i].Beg != b[i].Beg || a[i].End != b[i].End || a[i].Hash != b[i].Hash {
			return false
		}
	}
	return true
}

func deliveredVersion(o *e2eOutcome, name, hash string) bool {
	for _, d := range o.delivered {
		if d.Rel == targetName(o.w, name) && d.MD5 == hash {
			return true
		}
	}
	for _, l := range o.logged {
		if l.Name == name && l.Hash == hash {
			return true
		}
	}
	return false
}

// deliveredVersionBy: was (name, hash) delivered (or held validated and later delivered
// without another transmission) no later than virtual time vt?
func deliveredVersionBy(o *e2eOutcome, name, hash string, vt time.Duration) bool {
	for _, d := range o.delivered {
		if d.Rel == targetName(o.w, name) && d.MD5 == hash && d.At.Sub(o.w.start) <= vt {
			return true
		}
	}
	return false
}

func covered(rs []iv) int64 {
	if len(rs) == 0 {
		return 0
	}
	s := append([]iv(nil), rs...)
	sort.Slice(s, func(i, j int) bool { return s[i].b < s[j].b })
	var n int64
	cur := s[0]
	for _, r := range s[1:] {
		if r.b <= cur.e {
			if r.e > cur.e {
				cur.e = r.e
			}
		} else {
			n += cur.e - cur.b
			cur = r
		}
	}
	return n + cur.e - cur.b
}

func fileChangedAfter(o *e2eOutcome, name, hash string) bool {
	v := o.w.latestVersion(name)
	return v != nil && v.MD5 != hash
}

func failedValidation(o *e2eOutcome, name string) bool {
	for _, r := range o.reqs {
		if r.Class == "poll" {
			if c, ok := r.Codes[name]; ok && (c == sts.ConfirmFailed || c == sts.ConfirmNone) {
				return true
			}
		}
	}
	return false
}

func senderCrashedAfter(o *e2eOutcome, r *wRequest) bool {
	return o.senderCrash > 0 && r.Gen < o.w.sndGen
}

// oracleTiling (C11, failure-free runs): every byte of every file is in exactly one transmitted part
func oracleTiling(o *e2eOutcome, v vfn) {
	if len(o.spec.Faults) > 0 || o.senderCrash > 0 || o.recvCrash > 0 || len(o.spec.Mutations) > 0 {
		return
	}
	type key struct{ name, hash string }
	parts := map[key][]iv{}
	for _, r := range o.reqs {
		if r.Class != "data" {
			continue
		}
		var sum int64
		for _, p := range r.Parts {
			parts[key{p.Name, p.Hash}] = append(parts[key{p.Name, p.Hash}], iv{p.Beg, p.End})
			sum += p.End - p.Beg
		}
		if allow := o.spec.Conf.PayloadSize + o.spec.Conf.PayloadSize/10; sum > allow {
			v("C11", "payload-allowance", "over-allowance", fmt.Sprintf("request #%d carries %d bytes, allowance %d", r.ID, sum, allow))
		}
	}
	for _, f := range o.spec.Files {
		ver := o.w.latestVersion(f.Name)
		ps := parts[key{f.Name, ver.MD5}]
		sort.Slice(ps, func(i, j int) bool { return ps[i].b < ps[j].b })
		pos := int64(0)
		for _, p := range ps {
			if p.b != pos || p.e <= p.b {
				v("C11", "every-byte-once", "e2e-tiling", fmt.Sprintf("%s (size %d): transmitted parts %v do not tile the file (at %d)", f.Name, len(ver.Data), ps, pos))
				pos = -1
				break
			}
			pos = p.e
		}
		if pos >= 0 && pos != int64(len(ver.Data)) {
			v("C11", "every-byte-once", "e2e-tiling", fmt.Sprintf("%s (size %d): transmitted parts end at %d", f.Name, len(ver.Data), pos))
		}
	}
}

// crashImageCheck (C06 I1): right after the simulated death of the receiver,
// nothing under the final directory except complete, registered, announced
// versions or .lck temporaries
func crashImageCheck(w *world, out *e2eOutcome, when string) {
	if out.imageClasses == nil {
		out.imageClasses = map[string]int{}
	}
	srcOf := map[string]string{}
	for _, f := range out.spec.Files {
		srcOf[targetName(w, f.Name)] = f.Name
	}
	for rel, md5 := range w.finalFiles() {
		base := strings.TrimSuffix(rel, ".lck")
		name, ok := srcOf[base]
		if !ok {
			out.imageBad = append(out.imageBad, fmt.Sprintf("%s: %s under the final directory is not a target name", when, rel))
			continue
		}
		if !w.isVersion(name, md5) {
			out.imageBad = append(out.imageBad, fmt.Sprintf("%s: %s under the final directory (md5 %s) is not a complete version of %s", when, rel, md5, name))
		}
		if rel != base {
			out.imageClasses["final-lck"]++
		}
	}
	// classify what staging looks like (evidence: which on-disk states were hit)
	for _, f := range out.spec.Files {
		b := filepath.Join(w.recv.StageDir, f.Name)
		cls := ""
		for _, ext := range []string{".part", ".cmp", ".cmp.lck", ".full", ".wait"} {
			if _, err := os.Stat(b + ext); err == nil {
				cls += ext
			}
		}
		if cls != "" {
			out.imageClasses[cls]++
		}
	}
}

// listingSoundCheck (C06 I2): after Recover, every range the partials listing
// claims holds exactly the source bytes of the announced version
func listingSoundCheck(w *world, out *e2eOutcome) {
	// let the data requests in flight finish and keep new ones out meanwhile
	w.holdData.Store(true)
	defer w.holdData.Store(false)
	for k := 0; k < 3000 && w.dataInFlight.Load() > 0; k++ {
		time.Sleep(20 * time.Millisecond)
	}
	if w.dataInFlight.Load() > 0 {
		return // a request that never ends (injected outage): no listing this time
	}
	listing, err := w.recv.listing()
	if err != nil {
		return
	}
	for name, p := range listing {
		var data []byte
		w.regMu.Lock()
		for _, v := range w.registry[name] {
			if v.MD5 == p.Hash {
				data = v.Data
			}
		}
		w.regMu.Unlock()
		if data == nil {
			continue // a version the harness did not register cannot be announced
		}
		body, err := os.ReadFile(filepath.Join(w.recv.StageDir, name+".part"))
		if err != nil {
			continue // complete files are listed with their full range until delivered
		}
		for _, r := range p.Parts {
			for i := r.Beg; i < r.End; i++ {
				if i >= int64(len(body)) || i >= int64(len(data)) || body[i] != data[i] {
					out.listingBad = append(out.listingBad, fmt.Sprintf("after recovery the listing claims %s%s but the staged byte %d differs from the source", name, fmtIv(r.Beg, r.End), i))
					break
				}
			}
		}
	}
}

// oracleCrashImage (C06)
func oracleCrashImage(o *e2eOutcome, v vfn) {
	for _, s := range o.imageBad {
		v("C06", "crash-image-final-clean", "unvalidated-in-final-at-crash", s)
	}
	for _, s := range o.listingBad {
		v("C06", "listing-sound-after-recovery", "listing-unsound-after-recovery", s)
	}
}

// oracleNoDuplicateData (C07): a restarted sender re-sends only what the
// receiver does not report holding
func oracleNoDuplicateData(o *e2eOutcome, v vfn) {
	// the sent log is consulted after a restart so that a file that was logged as sent
	// before the crash is not logged again when the start-up recovery poll confirms it:
	// a record written during generation g's recovery phase (before its first scan) for a
	// (name, hash) whose record was already on disk when generation g started
	firstScanOf := map[int]int{}
	for _, e := range o.events {
		if e.Kind == "scan" {
			if _, ok := firstScanOf[e.Gen]; !ok {
				firstScanOf[e.Gen] = e.Seq
			}
		}
	}
	o.w.regMu.Lock()
	atStart := o.w.sentLogAtStart
	o.w.regMu.Unlock()
	for _, e := range o.events {
		if e.Kind != "sent_logged" || e.Gen < 2 {
			continue
		}
		if fs, ok := firstScanOf[e.Gen]; ok && e.Seq > fs {
			continue
		}
		if atStart[e.Gen][e.Name+"|"+e.S] > 0 {
			v("C07", "sent-log-once", "sent-logged-again-after-restart", fmt.Sprintf("%s (hash %s): the sent log already held a record of it when sender generation %d started, and that generation's start-up recovery wrote another one", e.Name, e.S, e.Gen))
		}
	}
	maxGen := 0
	for _, r := range o.reqs {
		if r.Gen > maxGen {
			maxGen = r.Gen
		}
	}
	answeredAt := map[string]time.Duration{} // request id | name -> when the receiver computed its poll answer
	for _, e := range o.events {
		if e.Kind == "poll_code" {
			answeredAt[fmt.Sprintf("%d|%s", e.Req, e.Name)] = e.VT
		}
	}
	for g := 2; g <= maxGen; g++ {
		held := map[string][]iv{}      // name|hash -> ranges listed in the first successful partials answer
		confirmed := map[string]bool{} // names polled passed/waiting during start-up recovery
		confirmedAt := map[string]time.Duration{}
		failed := map[string]bool{}
		gotListing := false
		for _, r := range o.reqs {
			if r.Gen != g {
				continue
			}
			switch r.Class {
			case "partials":
				if r.Err == "" && !gotListing {
					gotListing = true
					for _, p := range r.Parts {
						if p.End > p.Beg {
							held[p.Name+"|"+p.Hash] = append(held[p.Name+"|"+p.Hash], iv{p.Beg, p.End})
						}
					}
				}
			case "poll":
				for n, c := range r.Codes {
					if c == sts.ConfirmPassed || c == sts.ConfirmWaiting {
						confirmed[n] = true
						// the moment the RECEIVER gave the answer (it may reach the sender much
						// later; what the receiver delivered in between was not what it answered for)
						confirmedAt[n] = r.End
						if t, ok := answeredAt[fmt.Sprintf("%d|%s", r.ID, n)]; ok {
							confirmedAt[n] = t
						}
					}
					if c == sts.ConfirmFailed || c == sts.ConfirmNone {
						failed[n] = true
						delete(confirmed, n)
					}
				}
			case "data":
				for _, p := range r.Parts {
					if failed[p.Name] || fileChangedAfter(o, p.Name, p.Hash) {
						continue
					}
					// (the poll goes by name: the answer can only have been about THIS version
					// if the receiver held it validated when it answered)
					// ... and only a transmission that STARTED after the answer was given can
					// be a re-transmission of what was confirmed (requests are listed in the order
					// they were opened; a slow poll opened first may be answered long after
					// the data request that delivered the version it answers for)
					if confirmed[p.Name] && r.At >= confirmedAt[p.Name] && deliveredVersionBy(o, p.Name, p.Hash, confirmedAt[p.Name]) {
						v("C07", "confirmed-files-not-resent", "resent-confirmed-file", fmt.Sprintf("sender generation %d transmitted %s%s although the receiver had answered passed/waiting for it after the restart", g, p.Name, fmtIv(p.Beg, p.End)))
					}
					for _, h := range held[p.Name+"|"+p.Hash] {
						if p.Beg < h.e && h.b < p.End {
							v("C07", "only-missing-ranges-resent", "resent-held-range", fmt.Sprintf("sender generation %d transmitted %s%s which overlaps %s that the receiver listed as held", g, p.Name, fmtIv(p.Beg, p.End), fmtIv(h.b, h.e)))
						}
					}
				}
			}
		}
	}
}

// oracleResumedPrev (C07 / C10): a file that a restarted sender RESUMES (queued as a
// recovered file with bytes to send) is announced with the predecessor it had announced
// before the restart - the ordering chain continues from the files handled before the crash.
func oracleResumedPrev(o *e2eOutcome, v vfn) {
	type key struct{ name, hash string }
	lastPrev := map[int]map[key]string{} // generation -> (name, hash) -> predecessor announced in its data parts
	for _, q := range o.reqs {
		if q.Class != "data" {
			continue
		}
		for _, p := range q.Parts {
			if lastPrev[q.Gen] == nil {
				lastPrev[q.Gen] = map[key]string{}
			}
			k := key{p.Name, p.Hash}
			if _, ok := lastPrev[q.Gen][k]; !ok {
				lastPrev[q.Gen][k] = p.Prev // the first announcement of that generation
			}
		}
	}
	listed := map[int]map[key]string{} // generation -> (name, hash) -> predecessor in that generation's first listing of partials
	for _, q := range o.reqs {
		if q.Class != "partials" || q.Err != "" || listed[q.Gen] != nil {
			continue
		}
		listed[q.Gen] = map[key]string{}
		for _, p := range q.Parts {
			listed[q.Gen][key{p.Name, p.Hash}] = p.Prev
		}
	}
	for _, e := range o.events {
		if e.Kind != "q_push" || e.S != "recovered" || e.Gen < 2 || e.A <= 0 {
			continue
		}
		for k, now := range lastPrev[e.Gen] {
			if k.name != e.Name {
				continue
			}
			if _, ok := lastPrev[e.Gen-1][k]; !ok {
				continue
			}
			// the announcement to keep is the one the RECEIVER recorded (its listing is the
			// only place the restarted sender can learn it from): an announcement made in a
			// request that never reached the receiver binds nobody
			before, ok := listed[e.Gen][k]
			if !ok || before == "" || before == now {
				continue
			}
			if tag := o.w.tagOf(k.name); tag == nil || tag.Order == sts.OrderNone {
				continue
			}
			v("C07", "ordering-chain-continues", "resumed-file-changed-predecessor", fmt.Sprintf("%s (hash %s) announced predecessor %q before the restart; sender instance %d resumes it announcing %q", k.name, k.hash, before, e.Gen, now))
			return
		}
	}
}
