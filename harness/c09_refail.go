package harness

import (
	"fmt"
	"math/rand"
	"os"
	"path/filepath"
	"testing/synctest"
	"time"

	"github.com/arm-doe/sts"
)

// C09 (retransmission after a failed validation) - a file arrives completely but damaged
// in transit, fails validation, and the sender sends the SAME version again, part by
// part in a PRNG order (optionally after more damaged rounds, virtual waiting, a
// cleaning).  After every retransmitted part the receiver's record is compared with
// what was received SINCE the staged body was created anew:
//   - the listing claims only ranges received in this transmission, with the right bytes,
//   - Received() on each part of the file answers 1 for those and 0 for the others,
//   - the file is not treated as complete before its last part arrived,
//   - after the last part it is validated and delivered intact.

type c09rScenario struct {
	Size      int64   `json:"size"`
	Parts     []int64 `json:"cuts"`
	BadRounds int     `json:"damaged_rounds"`
	Order     []int   `json:"retransmission_order"`
	Clean     bool    `json:"clean_in_between"`
	WaitS     int     `json:"wait_s"`
}

func runC09Refail(c *Ctx) {
	n := c.N(300, 8000)
	for i := 0; i < n; i++ {
		idx := 5_000_000 + i
		if !c.Mine(idx) {
			continue
		}
		rng := c.Rng(idx)
		sc := &c09rScenario{}
		dir := filepath.Join(c.Work, fmt.Sprintf("c09r-%d", idx))
		c.Guard(idx, sc, func() {
			bubble(c.T, func() { c09RefailRun(c, idx, rng, sc, dir) })
		})
		os.RemoveAll(dir)
	}
}

func c09RefailRun(c *Ctx, idx int, rng *rand.Rand, sc *c09rScenario, dir string) {
	res := c.Res
	res.Eval()
	viol := func(clause, fp, detail string) {
		res.Violate(Violation{Clause: clause, Fingerprint: "C09/" + fp, Detail: detail, Scenario: sc, Index: idx})
	}
	time.Sleep(time.Duration(rng.Intn(86400)) * time.Second)
	rs := newRecvSide(dir, false)
	defer rs.close()
	name := "d/refail.dat"
	size := int64(2 + rng.Intn(4000))
	sc.Size = size
	data := randBytes(rng, size)
	hash := md5hex(data)
	// 2-5 parts
	cuts := map[int64]bool{0: true, size: true}
	for k := 0; k < 1+rng.Intn(4); k++ {
		cuts[1+rng.Int63n(size-1)] = true
	}
	var cs []int64
	for x := int64(0); x <= size; x++ {
		if cuts[x] {
			cs = append(cs, x)
		}
	}
	sc.Parts = cs
	type part struct{ b, e int64 }
	var parts []part
	for k := 0; k+1 < len(cs); k++ {
		parts = append(parts, part{cs[k], cs[k+1]})
	}
	ftime := time.Now().Add(-time.Hour)
	send := func(p part, payload []byte) error {
		d := &desc{Name: name, Hash: hash, Size: size, Time: ftime, Beg: p.b, End: p.e, Send: size}
		rs.Stage.Prepare([]sts.Binned{d})
		return rs.Stage.Receive(d.partial("src"), &chunkyReader{data: payload[p.b:p.e], rng: rng, stop: -1})
	}
	settle := func() {
		synctest.Wait()
		time.Sleep(3 * time.Second)
		synctest.Wait()
		rs.restamp()
	}
	sc.BadRounds = 1 + rng.Intn(2)
	for r := 0; r < sc.BadRounds; r++ {
		bad := append([]byte{}, data...)
		bad[rng.Intn(len(bad))] ^= 0x41
		for _, p := range parts {
			if err := send(p, bad); err != nil {
				res.Inconc("damaged round: receive failed: " + err.Error())
				return
			}
		}
		settle()
		if st := rs.Stage.GetFileStatus(name, ftime); st != sts.ConfirmFailed {
			res.Count("damaged_round_not_answered_failed", 1)
			res.Inconc(fmt.Sprintf("after the damaged round the poll answers %d, not 'failed'", st))
			return
		}
	}
	if rng.Intn(3) == 0 {
		sc.WaitS = 1 + rng.Intn(7200)
		time.Sleep(time.Duration(sc.WaitS) * time.Second)
		rs.restamp()
	}
	if rng.Intn(4) == 0 {
		sc.Clean = true
		rs.Stage.CleanNow()
		synctest.Wait()
	}
	// the retransmission, part by part
	order := rng.Perm(len(parts))
	sc.Order = order
	got := map[int]bool{}
	for n, pi := range order {
		p := parts[pi]
		if err := send(p, data); err != nil {
			viol("retransmission-accepted", "refail-part-refused", fmt.Sprintf("retransmission after a failed validation: part [%d,%d) (%d of %d sent) was refused: %v", p.b, p.e, n+1, len(parts), err))
			return
		}
		got[pi] = true
		synctest.Wait()
		last := n == len(order)-1
		_, partErr := os.Stat(filepath.Join(rs.StageDir, name+".part"))
		if !last {
			if partErr != nil {
				viol("complete-only-when-covered", "refail-complete-too-early", fmt.Sprintf("after %d of %d retransmitted parts the staged partial is gone: the file was treated as complete although parts %v were not received again", n+1, len(parts), missingOf(order[n+1:])))
				return
			}
			listing, err := rs.listing()
			if err != nil {
				res.Inconc("scan failed: " + err.Error())
				return
			}
			body, _ := os.ReadFile(filepath.Join(rs.StageDir, name+".part"))
			if l := listing[name]; l != nil {
				for _, r := range l.Parts {
					covered := false
					for gi := range got {
						if r.Beg >= parts[gi].b && r.End <= parts[gi].e {
							covered = true
						}
					}
					if !covered {
						viol("claims-subset-of-truth", "refail-stale-range-listed", fmt.Sprintf("after %d of %d retransmitted parts the listing claims [%d,%d), which was not received since the staged body was created anew (received again so far: %v)", n+1, len(parts), r.Beg, r.End, gotOf(got, order)))
						return
					}
					if int64(len(body)) >= r.End && string(body[r.Beg:r.End]) != string(data[r.Beg:r.End]) {
						viol("claims-subset-of-truth", "refail-listed-range-wrong-bytes", fmt.Sprintf("listed range [%d,%d) does not hold the file's bytes", r.Beg, r.End))
						return
					}
				}
			}
			for qi, q := range parts {
				a := &desc{Name: name, Hash: hash, Size: size, Time: ftime, Beg: q.b, End: q.e, Send: size}
				ans := rs.Stage.Received([]sts.Binned{a})
				if ans == 1 && !got[qi] {
					viol("claims-subset-of-truth", "refail-received-counts-stale-part", fmt.Sprintf("after %d of %d retransmitted parts Received() claims part [%d,%d), which was not received again", n+1, len(parts), q.b, q.e))
					return
				}
			}
		}
	}
	settle()
	settle()
	b, err := os.ReadFile(filepath.Join(rs.FinalDir, name))
	if err != nil || md5hex(b) != hash {
		st := rs.Stage.GetFileStatus(name, ftime)
		viol("retransmission-completes", "refail-not-delivered", fmt.Sprintf("all %d parts were received again intact, yet the file is not delivered with the right content (read error %v, poll answers %d)", len(parts), err, st))
		return
	}
	res.Count("refail_histories", 1)
	res.NonTrivial(fmt.Sprintf("c09r/%d/%v/%d/%v/%v", size, cs, sc.BadRounds, order, sc.Clean))
	res.Sample(sc)
}

func missingOf(rest []int) []int { return rest }

func gotOf(got map[int]bool, order []int) []int {
	var o []int
	for _, i := range order {
		if got[i] {
			o = append(o, i)
		}
	}
	return o
}
