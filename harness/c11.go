package harness

import (
	"fmt"
	"math/rand"
	"sort"
	"strings"
	"time"

	"github.com/arm-doe/sts"
	"github.com/arm-doe/sts/client"
	"github.com/arm-doe/sts/payload"
	"github.com/arm-doe/sts/queue"
)

// C11 — chunks and payload parts tile every file exactly.
//
// Three observation points: (a) Queue.Pop chunks (shared generator/model with
// C10/C12, queue_mon.go), (b) packing of popped chunks into real payload.Bin
// objects through the real client binnable wrapper, following the binning loop
// of the sender, (c) Split after k parts.

func init() { register("C11", runC11) }

type c11Scenario struct {
	Payload int64    `json:"payload_size"`
	Chunk   int64    `json:"chunk_size"`
	Files   []string `json:"files"`
	Note    string   `json:"note,omitempty"`
}

func runC11(c *Ctx) {
	// (a) queue histories
	runQueue(c, "C11")
	// (d) missing ranges of resumed files out of the real start-up recovery
	runC11Recover(c)
	// (b)+(c) packing
	n := c.N(4000, 200000)
	for i := 0; i < n; i++ {
		idx := 1_000_000 + i
		if !c.Mine(idx) {
			continue
		}
		rng := c.Rng(idx)
		sc := &c11Scenario{}
		c.Guard(idx, sc, func() {
			bubble(c.T, func() { c11Pack(c, idx, rng, sc) })
		})
	}
}

type iv struct{ b, e int64 }

func c11Pack(c *Ctx, idx int, rng *rand.Rand, sc *c11Scenario) {
	res := c.Res
	res.Eval()
	viol := func(clause, fp, detail string) {
		res.Violate(Violation{Clause: clause, Fingerprint: "C11/" + fp, Detail: detail, Scenario: sc, Index: idx})
	}
	// sizes around the boundaries
	pick := func(base int64) int64 {
		switch rng.Intn(6) {
		case 0:
			return base
		case 1:
			return base + 1
		case 2:
			if base > 1 {
				return base - 1
			}
			return base
		case 3:
			return base*int64(2+rng.Intn(3)) + int64(rng.Intn(3)-1)
		case 4:
			return 1 + rng.Int63n(3)
		}
		return 1 + rng.Int63n(4*base+1)
	}
	psize := int64(1 + rng.Intn(4000))
	if rng.Intn(5) == 0 {
		psize = int64(1 + rng.Intn(40))
	}
	var chunk int64
	switch rng.Intn(4) {
	case 0:
		chunk = psize
	case 1:
		chunk = 1 + rng.Int63n(psize*3)
	case 2:
		chunk = 1 + rng.Int63n(psize+1)
	default:
		chunk = pick(psize)
	}
	if chunk < 1 {
		chunk = 1
	}
	sc.Payload, sc.Chunk = psize, chunk
	order := []string{sts.OrderFIFO, sts.OrderAlpha, sts.OrderNone}[rng.Intn(3)]
	tag := &queue.Tag{Name: "t", Order: order, ChunkSize: chunk}
	q := queue.NewTagged([]*queue.Tag{tag}, func(string) string { return "t" }, func(n string) string {
		if i := strings.Index(n, "/"); i > 0 {
			return n[:i]
		}
		return n
	})
	nfiles := 1 + rng.Intn(8)
	if rng.Intn(6) == 0 {
		nfiles = 1
	}
	type fileInfo struct {
		size int64
		want []iv // byte ranges that have to be sent
	}
	files := map[string]*fileInfo{}
	var batch []sts.Hashed
	for f := 0; f < nfiles; f++ {
		name := fmt.Sprintf("g%d/f%02d", rng.Intn(2), f)
		base := psize
		if rng.Intn(2) == 0 {
			base = chunk
		}
		size := pick(base)
		if size < 1 {
			size = 1
		}
		if size > 60000 {
			size = 60000
		}
		qf := &qFile{name: name, size: size, time: time.Now().Add(-time.Duration(rng.Intn(1000)) * time.Second), hash: "h"}
		fi := &fileInfo{size: size}
		var pushed sts.Hashed = qf
		if rng.Intn(5) == 0 {
			// resumed file: only its missing ranges are to be sent
			var left []*sts.ByteRange
			pos := int64(0)
			for pos < size && len(left) < 5 {
				beg := pos + rng.Int63n(size-pos)
				ln := 1 + rng.Int63n(size-beg)
				if rng.Intn(3) == 0 {
					ln = 1
				}
				left = append(left, &sts.ByteRange{Beg: beg, End: beg + ln})
				fi.want = append(fi.want, iv{beg, beg + ln})
				pos = beg + ln + rng.Int63n(3)
			}
			pushed = client.ZZNewRecoverFile(qf, "", left)
			sc.Files = append(sc.Files, fmt.Sprintf("%s size=%d missing=%v", name, size, fi.want))
		} else {
			fi.want = []iv{{0, size}}
			sc.Files = append(sc.Files, fmt.Sprintf("%s size=%d", name, size))
		}
		files[name] = fi
		batch = append(batch, pushed)
	}
	q.Push(batch)

	// the sender's binning loop (client.startBin) on real Bin + real binnable
	var payloads []sts.Payload
	var cur sts.Binnable
	var bin sts.Payload
	chunksOf := map[string][]iv{}
	guard := 0
	for {
		guard++
		if guard > 500000 {
			viol("packing-terminates", "packing-livelock", "binning loop did not terminate")
			return
		}
		if cur == nil {
			s := q.Pop()
			if s == nil {
				break
			}
			off, ln := s.GetSlice()
			chunksOf[s.GetName()] = append(chunksOf[s.GetName()], iv{off, off + ln})
			cur = client.ZZNewBinnable(s, "t", order == sts.OrderNone)
		}
		if bin == nil {
			bin = payload.NewBin(psize, nil, nil)
		}
		added := bin.Add(cur)
		if !added || cur.IsAllocated() {
			if !added && !cur.IsAllocated() {
				b, e := cur.GetNextAlloc()
				fp := "chunk-dropped"
				if psize < 10 {
					fp = "chunk-dropped-tiny-payload"
				}
				viol("no-byte-lost", fp, fmt.Sprintf("payload of size %d (%d bytes used) refused bytes [%d,%d) of %s and was not reported full: the binning loop drops the rest of the chunk", psize, bin.GetSize(), b, e, cur.GetName()))
			}
			cur = nil
		}
		if bin.IsFull() {
			payloads = append(payloads, bin)
			bin = nil
		}
	}
	if bin != nil && bin.GetSize() > 0 {
		payloads = append(payloads, bin)
	}
	res.Count("payloads", int64(len(payloads)))

	// oracle
	allow := psize + psize/10
	partsOf := map[string][]iv{}
	for pi, p := range payloads {
		var sum int64
		for _, part := range p.GetParts() {
			b, n := part.GetSlice()
			if n < 1 {
				viol("part-nonempty", "empty-part", fmt.Sprintf("payload %d holds an empty part of %s at %d", pi, part.GetName(), b))
			}
			sum += n
			partsOf[part.GetName()] = append(partsOf[part.GetName()], iv{b, b + n})
			inside := false
			for _, ch := range chunksOf[part.GetName()] {
				if b >= ch.b && b+n <= ch.e {
					inside = true
				}
			}
			if !inside {
				viol("part-inside-chunk", "part-crosses-chunk", fmt.Sprintf("part [%d,%d) of %s is not inside one popped chunk %v", b, b+n, part.GetName(), chunksOf[part.GetName()]))
			}
			res.Count("parts", 1)
		}
		if sum != p.GetSize() {
			viol("payload-size-accounting", "size-accounting", fmt.Sprintf("payload %d reports %d bytes, parts add up to %d", pi, p.GetSize(), sum))
		}
		if sum > allow {
			viol("payload-allowance", "over-allowance", fmt.Sprintf("payload %d carries %d bytes, allowance is %d (+10%%) = %d", pi, sum, psize, allow))
		}
	}
	for name, fi := range files {
		got := partsOf[name]
		sort.Slice(got, func(i, j int) bool { return got[i].b < got[j].b })
		// exact tiling of the wanted ranges
		var flat []iv
		for _, g := range got {
			if len(flat) > 0 && flat[len(flat)-1].e == g.b {
				flat[len(flat)-1].e = g.e
			} else {
				if len(flat) > 0 && g.b < flat[len(flat)-1].e {
					viol("parts-disjoint", "overlap", fmt.Sprintf("%s: parts overlap at %d: %v", name, g.b, got))
				}
				flat = append(flat, g)
			}
		}
		var want []iv
		for _, w := range fi.want {
			if len(want) > 0 && want[len(want)-1].e == w.b {
				want[len(want)-1].e = w.e
			} else {
				want = append(want, w)
			}
		}
		if fmt.Sprint(flat) != fmt.Sprint(want) {
			fp := "cover"
			if psize < 10 {
				fp = "cover-tiny-payload"
			}
			viol("exact-cover", fp, fmt.Sprintf("%s (size %d): transmitted parts cover %v, wanted exactly %v", name, fi.size, flat, want))
		}
	}

	// (c) Split after k: head ∪ tail = original parts in order; byte counts equal part sums
	nsplit := 0
	for _, p := range payloads {
		parts := p.GetParts()
		if len(parts) < 2 || rng.Intn(2) == 0 {
			continue
		}
		k := rng.Intn(len(parts) + 2) // includes 0 and len (no split)
		orig := describeParts(parts)
		tail := p.Split(k)
		head := describeParts(p.GetParts())
		var tl []string
		if tail != nil {
			tl = describeParts(tail.GetParts())
		}
		nsplit++
		if k < 1 || k >= len(parts) {
			if tail != nil || len(head) != len(orig) {
				viol("split-degenerate", "split-degenerate", fmt.Sprintf("Split(%d) of %d parts changed the payload", k, len(parts)))
			}
			continue
		}
		if tail == nil {
			viol("split", "split-nil", fmt.Sprintf("Split(%d) of %d parts returned nil", k, len(parts)))
			continue
		}
		if fmt.Sprint(append(append([]string{}, head...), tl...)) != fmt.Sprint(orig) || len(head) != k {
			viol("split-partition", "split-partition", fmt.Sprintf("Split(%d): head %v + tail %v != original %v", k, head, tl, orig))
		}
		if sumParts(p.GetParts()) != p.GetSize() || sumParts(tail.GetParts()) != tail.GetSize() {
			viol("split-accounting", "split-accounting", fmt.Sprintf("Split(%d): head size %d (parts %d), tail size %d (parts %d)", k, p.GetSize(), sumParts(p.GetParts()), tail.GetSize(), sumParts(tail.GetParts())))
		}
	}
	res.Count("splits", int64(nsplit))
	res.NonTrivial(fmt.Sprintf("p%d/c%d/%v", psize, chunk, sc.Files))
	res.Sample(sc)
}

func describeParts(parts []sts.Binned) []string {
	var out []string
	for _, p := range parts {
		b, n := p.GetSlice()
		out = append(out, fmt.Sprintf("%s[%d+%d]", p.GetName(), b, n))
	}
	return out
}

func sumParts(parts []sts.Binned) int64 {
	var s int64
	for _, p := range parts {
		_, n := p.GetSlice()
		s += n
	}
	return s
}
