package harness

import (
	"bytes"
	"compress/gzip"
	"errors"
	"fmt"
	"io"
	"math/rand"
	"os"
	"path/filepath"
	"regexp"
	"sort"
	"strings"
	"sync"
	"sync/atomic"
	"time"

	"github.com/alecthomas/units"
	"github.com/arm-doe/sts"
	"github.com/arm-doe/sts/cache"
	"github.com/arm-doe/sts/client"
	stslog "github.com/arm-doe/sts/log"
	"github.com/arm-doe/sts/marshal"
	"github.com/arm-doe/sts/payload"
	"github.com/arm-doe/sts/queue"
	"github.com/arm-doe/sts/stage"
	"github.com/arm-doe/sts/store"
	"github.com/arm-doe/sts/zzverif/vfs"
)

// W-syn: the whole system in one process under a virtual clock.  Real
// client.Broker + store.Local + cache.JSON + queue.Tagged + payload.Bin +
// log.FileIO on the sending side, real stage.Stage + log.FileIO on the
// receiving side, real directories.  The two sides are joined by a direct
// transport (this file) which performs the steps of http.Client.Transmit ->
// Server.routeData etc. and is the place where faults and latency are injected.

// ---------------------------------------------------------------- event log

type wEvent struct {
	Seq  int           `json:"seq"`
	VT   time.Duration `json:"vt"` // virtual time since world start
	Kind string        `json:"k"`
	Name string        `json:"n,omitempty"`
	A    int64         `json:"a,omitempty"`
	B    int64         `json:"b,omitempty"`
	S    string        `json:"s,omitempty"`
	Req  int           `json:"req,omitempty"` // request id
	Gen  int           `json:"gen,omitempty"` // sender / receiver generation
}

type evLog struct {
	mu     sync.Mutex
	start  time.Time
	events []wEvent
}

func (l *evLog) add(e wEvent) int {
	l.mu.Lock()
	defer l.mu.Unlock()
	e.Seq = len(l.events)
	e.VT = time.Since(l.start)
	l.events = append(l.events, e)
	return e.Seq
}

func (l *evLog) size() int {
	l.mu.Lock()
	defer l.mu.Unlock()
	return len(l.events)
}

func (l *evLog) snapshot() []wEvent {
	l.mu.Lock()
	defer l.mu.Unlock()
	return append([]wEvent(nil), l.events...)
}

func (l *evLog) tail(n int) []wEvent {
	l.mu.Lock()
	defer l.mu.Unlock()
	if len(l.events) > n {
		return append([]wEvent(nil), l.events[len(l.events)-n:]...)
	}
	return append([]wEvent(nil), l.events...)
}

// ---------------------------------------------------------------- configuration

type wTag struct {
	Pattern     string        `json:"pattern"` // "" = default tag
	Order       string        `json:"order"`
	Priority    int           `json:"priority"`
	Delete      bool          `json:"delete"`
	DeleteDelay time.Duration `json:"delete_delay"`
	LastDelay   time.Duration `json:"last_delay"`
	Chunk       int64         `json:"chunk"`
}

type wConf struct {
	Threads      int           `json:"threads"`
	PayloadSize  int64         `json:"payload"`
	Tags         []wTag        `json:"tags"`
	ScanDelay    time.Duration `json:"scan_delay"`
	PollDelay    time.Duration `json:"poll_delay"`
	PollInterval time.Duration `json:"poll_interval"`
	PollAttempts int           `json:"poll_attempts"`
	PollMax      int           `json:"poll_max"`
	CacheAge     time.Duration `json:"cache_age"`
	MinAge       time.Duration `json:"min_age"`
	Gzip         int           `json:"gzip"`
	Rename       bool          `json:"rename"`
	Backoff      float64       `json:"backoff"`
	MaxLatency   time.Duration `json:"max_latency"`
	// files that cannot be opened by the first sender instance (hashing fails: the cache
	// keeps them without a hash), and ignore patterns the operator adds before the
	// second instance starts
	OpenFailGen1   []string `json:"open_fails_in_first_instance,omitempty"`
	IgnoreFromGen2 []string `json:"ignore_patterns_from_second_instance,omitempty"`
}

func defaultConf(rng *rand.Rand) *wConf {
	c := &wConf{
		Threads:      1 + rng.Intn(4),
		PayloadSize:  int64(200 + rng.Intn(4000)),
		ScanDelay:    time.Duration(5+rng.Intn(30)) * time.Second,
		PollDelay:    time.Duration(1+rng.Intn(4)) * time.Second, // never 0: the poll loop busy-waits on a zero delay, which a virtual clock cannot outlast
		PollInterval: time.Duration(1+rng.Intn(5)) * time.Second,
		PollAttempts: 2 + rng.Intn(4),
		PollMax:      1 + rng.Intn(20),
		CacheAge:     24 * time.Hour,
		MaxLatency:   time.Duration(rng.Intn(3000)) * time.Millisecond,
	}
	c.Tags = []wTag{{Pattern: "", Order: sts.OrderFIFO, Chunk: int64(50 + rng.Intn(3000))}}
	return c
}

// ---------------------------------------------------------------- faults

// fault kinds applied by the transport
const (
	fNone        = ""
	fRefuse      = "refuse"       // answer an error status without touching the receiver
	fUnavailable = "unavailable"  // receiver unavailable (connection refused)
	fFailPart    = "fail-part"    // Receive of part K fails -> partial-content answer carrying K
	fCutBefore   = "cut-before"   // connection cut before part K is processed, no answer
	fCutMid      = "cut-mid"      // connection cut inside part K after some bytes, no answer
	fLostAnswer  = "lost-answer"  // everything processed, the answer is lost
	fCorrupt     = "corrupt"      // a byte of part K is flipped in transit (no error)
	fPollFail    = "poll-fail"    // validation request fails
	fPollLost    = "poll-lost"    // validation processed, answer lost
	fRecoverFail = "recover-fail" // data-recovery request fails
	fPartialsErr = "partials-fail"
)

type fault struct {
	Kind string `json:"kind"`
	// which request of its class (1-based, counted per class: data / recovery / poll / partials)
	Nth int `json:"nth"`
	K   int `json:"k"` // part index
	// Repeat: apply to this many consecutive requests of the class starting at Nth
	Repeat int `json:"repeat,omitempty"`
}

// ---------------------------------------------------------------- the world

type srcVersion struct {
	Data  []byte
	MD5   string
	MTime time.Time
	Seq   int
}

type world struct {
	root  string
	conf  *wConf
	rng   *rand.Rand
	log   *evLog
	start time.Time

	holdData       atomic.Bool  // data requests wait while the harness reads the receiver's listing
	dataInFlight   atomic.Int64 // data requests between their start and their answer
	recv           *recvSide
	gone           map[string]bool        // source files removed behind the sender's back before they were delivered
	sentLogAtStart map[int]map[string]int // sender generation -> records in the sent log on disk when it started
	// receiver generation counter (restarts)
	recvGen int

	// sender
	outDir, cacheDir, sentLogDir string
	snd                          *sender
	sndGen                       int
	sndDom                       *vfs.Domain

	faults      []fault
	fmu         sync.Mutex
	reqCount    map[string]int
	reqID       int
	fired       []string
	lastFaultAt time.Duration

	// registry of every content ever put under a source name
	regMu    sync.Mutex
	registry map[string][]*srcVersion
	// delivery / log events of earlier receiver generations
	oldDelivered []delivered
	oldLogged    []loggedRec

	// per-request record (C08 and others)
	reqMu sync.Mutex
	reqs  []*wRequest

	// hooks
	onRemove func(name, path string)         // called before the real Store.Remove
	onDone   func(name string, c sts.Cached) // called inside Cache.Done
	onStatus func(name string, code int)     // every poll answer produced by the Stage
	onAction func(kind string)               // every boundary action of the sender (crash/stop enumeration)
	latency  bool
}

type partRec struct {
	Name, Prev, Hash, Renamed string
	Beg, End, Size, Send      int64
	// Hash0: what the part said when the request began, if the encoded header (what
	// the receiver was told, now in Hash / Size) said something else
	Hash0 string `json:",omitempty"`
}

type wRequest struct {
	Seq     int // position of the request's first event in the event log
	ID      int
	Class   string // data | recovery | poll | partials
	Gen     int
	Parts   []partRec
	N       int // answer count
	Err     string
	Fault   string
	Acked   []bool // per part: Receive returned nil
	At, End time.Duration
	Names   []string          // poll
	Codes   map[string]int    // poll answers
	Hashes  map[string]string // poll: hash of the version the sender asks about
	Sizes   map[string]int64  // poll: bytes the sender had to send for it
}

type sender struct {
	w      *world
	gen    int
	dead   bool
	dmu    sync.Mutex
	store  *store.Local
	cache  *cache.JSON
	queue  *queue.Tagged
	logger *stslog.FileIO
	broker *client.Broker
	stop   chan bool
	done   chan bool
	nAct   int
}

func (s *sender) isDead() bool {
	s.dmu.Lock()
	defer s.dmu.Unlock()
	return s.dead
}

// action is called at every boundary action of the sender; it parks the caller
// when the instance has been crashed.
func (s *sender) action(kind string) {
	if s.isDead() {
		vfs.Park()
	}
	s.actionNoPark(kind)
	if s.isDead() {
		vfs.Park()
	}
}

// actionNoPark: a boundary action reached while the caller holds a lock of the code
// under test (the payload encoder opens source files under its own mutex): the
// caller must not be parked there - a goroutine waiting for that mutex is not
// "durably blocked" and would stop the virtual clock - so a crash decided here makes
// the operation fail instead
func (s *sender) actionNoPark(kind string) {
	s.dmu.Lock()
	s.nAct++
	s.dmu.Unlock()
	if s.w.onAction != nil {
		s.w.onAction(kind)
	}
}

func newWorld(root string, conf *wConf, rng *rand.Rand) *world {
	w := &world{root: root, conf: conf, rng: rng, log: &evLog{start: time.Now()}, start: time.Now(),
		reqCount: map[string]int{}, registry: map[string][]*srcVersion{}, latency: true}
	w.outDir = filepath.Join(root, "snd", "out")
	w.cacheDir = filepath.Join(root, "snd", "cache")
	w.sentLogDir = filepath.Join(root, "snd", "logs")
	for _, d := range []string{w.outDir, w.cacheDir, w.sentLogDir} {
		_ = os.MkdirAll(d, 0o755)
	}
	// one vfs domain for the sending side for the whole life of the world: its
	// mutating calls are boundary actions of whichever sender instance is current
	// (instances are told apart by their wrappers, which park a dead instance)
	w.sndDom = &vfs.Domain{Root: filepath.Join(root, "snd") + string(os.PathSeparator)}
	w.sndDom.Before = func(ev *vfs.Event) error {
		if ev.Mut && w.snd != nil {
			// (the cache file is written under the cache's lock: a crash decided here
			// makes the write fail instead of parking the writer with the lock held)
			snd := w.snd
			if !strings.HasPrefix(ev.Path, w.cacheDir) {
				snd.action("fs:" + ev.Op) // (the log files: a failing open would end the process)
				return nil
			}
			if snd.isDead() {
				return errConn
			}
			snd.actionNoPark("fs:" + ev.Op)
			if snd.isDead() {
				return errConn
			}
		}
		return nil
	}
	vfs.Register(w.sndDom)
	w.recv = newRecvSide(filepath.Join(root, "rcv"), false)
	w.recv.restamp()
	vfs.RestampTree(filepath.Join(root, "snd"), time.Now())
	return w
}

func (w *world) close() {
	w.recv.close()
	vfs.Unregister(w.sndDom)
}

func (w *world) vt() time.Duration { return time.Since(w.start) }

// ---- source files

func (w *world) writeSource(name string, data []byte, mtime time.Time) *srcVersion {
	w.regMu.Lock()
	v := &srcVersion{Data: data, MD5: md5hex(data), MTime: mtime, Seq: len(w.registry[name])}
	w.registry[name] = append(w.registry[name], v)
	w.regMu.Unlock()
	p := filepath.Join(w.outDir, name)
	_ = os.MkdirAll(filepath.Dir(p), 0o755)
	tmp := p + ".tmpw.lck"
	_ = os.WriteFile(tmp, data, 0o644)
	_ = os.Chtimes(tmp, mtime, mtime)
	_ = os.Rename(tmp, p)
	vfs.RestampTree(w.outDir, time.Now())
	w.log.add(wEvent{Kind: "write_source", Name: name, A: int64(len(data)), S: v.MD5})
	return v
}

// vanishSource: the file disappears from the outgoing directory behind the
// sender's back (if it is still there); from then on nobody expects its delivery
func (w *world) vanishSource(name string) bool {
	p := filepath.Join(w.outDir, name)
	if _, err := os.Stat(p); err != nil {
		return false
	}
	w.regMu.Lock()
	if w.gone == nil {
		w.gone = map[string]bool{}
	}
	w.gone[name] = true
	w.regMu.Unlock()
	_ = os.Remove(p)
	w.log.add(wEvent{Kind: "vanish_source", Name: name})
	return true
}

func (w *world) isGone(name string) bool {
	w.regMu.Lock()
	defer w.regMu.Unlock()
	return w.gone[name]
}

func (w *world) isVersion(name string, md5 string) bool {
	w.regMu.Lock()
	defer w.regMu.Unlock()
	for _, v := range w.registry[name] {
		if v.MD5 == md5 {
			return true
		}
	}
	return false
}

// describesVersion: some registered version of the name has that hash, size and
// modification time (what the sender's cache calls "the same version")
func (w *world) describesVersion(name, hash string, size int64, mtimeNs int64) bool {
	w.regMu.Lock()
	defer w.regMu.Unlock()
	for _, v := range w.registry[name] {
		if v.MD5 == hash && int64(len(v.Data)) == size && v.MTime.UnixNano() == mtimeNs {
			return true
		}
	}
	return false
}

// versionWithStamp: some registered version of the name has that size and modification time
func (w *world) versionWithStamp(name string, size int64, mtimeNs int64) bool {
	w.regMu.Lock()
	defer w.regMu.Unlock()
	for _, v := range w.registry[name] {
		if int64(len(v.Data)) == size && v.MTime.UnixNano() == mtimeNs {
			return true
		}
	}
	return false
}

// isVersionSize: some registered version of the name has that size
func (w *world) isVersionSize(name string, size int64) bool {
	w.regMu.Lock()
	defer w.regMu.Unlock()
	for _, v := range w.registry[name] {
		if int64(len(v.Data)) == size {
			return true
		}
	}
	return false
}

func (w *world) latestVersion(name string) *srcVersion {
	w.regMu.Lock()
	defer w.regMu.Unlock()
	vs := w.registry[name]
	if len(vs) == 0 {
		return nil
	}
	return vs[len(vs)-1]
}

func (w *world) names() []string {
	w.regMu.Lock()
	defer w.regMu.Unlock()
	var out []string
	for n := range w.registry {
		out = append(out, n)
	}
	sort.Strings(out)
	return out
}

// ---- tags

func (w *world) tagOf(name string) *wTag {
	for i := range w.conf.Tags {
		t := &w.conf.Tags[i]
		if t.Pattern != "" {
			if ok, _ := regexp.MatchString(t.Pattern, name); ok {
				return t
			}
		}
	}
	for i := range w.conf.Tags {
		if w.conf.Tags[i].Pattern == "" {
			return &w.conf.Tags[i]
		}
	}
	return nil
}

func groupOf(name string) string {
	// same default as main: up to the first dot of the relative path
	if i := strings.Index(name, "."); i > 0 {
		return name[:i]
	}
	return name
}

func renameOf(name string) string { return "renamed/" + strings.ReplaceAll(name, "/", "__") }

// ---- sender construction

// sentLogLines: "name|hash" of every record in the sender's sent log as it is on disk
func (w *world) sentLogLines() map[string]int {
	out := map[string]int{}
	_ = filepath.Walk(w.sentLogDir, func(p string, info os.FileInfo, err error) error {
		if err != nil || info.IsDir() {
			return nil
		}
		b, err := os.ReadFile(p)
		if err != nil {
			return nil
		}
		for _, ln := range strings.Split(string(b), "\n") {
			f := strings.Split(ln, ":")
			if len(f) >= 4 {
				out[f[0]+"|"+f[1]]++
			}
		}
		return nil
	})
	return out
}

func (w *world) startSender() *sender {
	w.sndGen++
	w.regMu.Lock()
	if w.sentLogAtStart == nil {
		w.sentLogAtStart = map[int]map[string]int{}
	}
	w.sentLogAtStart[w.sndGen] = w.sentLogLines()
	w.regMu.Unlock()
	s := &sender{w: w, gen: w.sndGen, stop: make(chan bool, 2), done: make(chan bool, 2)}
	c := w.conf
	s.store = &store.Local{Root: w.outDir, MinAge: c.MinAge}
	if s.gen >= 2 {
		for _, p := range c.IgnoreFromGen2 {
			s.store.Ignore = append(s.store.Ignore, regexp.MustCompile(p))
		}
	}
	s.store.AddStandardIgnore()
	var err error
	s.cache, err = cache.NewJSON(w.cacheDir, w.outDir, "")
	if err != nil {
		panic("harness: cache: " + err.Error())
	}
	var qtags []*queue.Tag
	var ctags []*client.FileTag
	for _, t := range c.Tags {
		qtags = append(qtags, &queue.Tag{Name: t.Pattern, Priority: t.Priority, Order: t.Order, ChunkSize: t.Chunk, LastDelay: t.LastDelay})
		ctags = append(ctags, &client.FileTag{Name: t.Pattern, InOrder: t.Order != sts.OrderNone, Delete: t.Delete, DeleteDelay: t.DeleteDelay})
	}
	tagger := func(group string) string {
		for _, t := range c.Tags {
			if t.Pattern == "" {
				continue
			}
			if t.Pattern == group {
				return t.Pattern
			}
			if ok, _ := regexp.MatchString(t.Pattern, group); ok {
				return t.Pattern
			}
		}
		return ""
	}
	grouper := func(name string) string {
		g := groupOf(name)
		if g != "" && g != name {
			return g
		}
		return tagger(name)
	}
	nameToTag := func(name string) string { return tagger(grouper(name)) }
	s.queue = queue.NewTagged(qtags, tagger, grouper)
	s.logger = stslog.NewFileIO(w.sentLogDir, nil, nil, false)
	var renamer sts.Rename
	if c.Rename {
		renamer = func(f sts.File) string { return renameOf(f.GetName()) }
	}
	s.broker = &client.Broker{Conf: &client.Conf{
		Name:         "src",
		Store:        &storeWrap{s: s},
		Cache:        &cacheWrap{s: s},
		Queue:        &queueWrap{s: s},
		Recoverer:    s.recoverReq,
		BuildPayload: payload.NewBin,
		Transmitter:  s.transmit,
		TxRecoverer:  s.recoverTx,
		Validator:    s.validate,
		Logger:       &sentLogWrap{s: s},
		Renamer:      renamer,
		Tagger:       nameToTag,
		CacheAge:     c.CacheAge,
		ScanDelay:    c.ScanDelay,
		Threads:      c.Threads,
		PayloadSize:  units.Base2Bytes(c.PayloadSize),
		StatInterval: time.Hour,
		PollDelay:    c.PollDelay,
		PollInterval: c.PollInterval,
		PollAttempts: c.PollAttempts,
		PollMaxCount: c.PollMax,
		Tags:         ctags,
		ErrorBackoff: c.Backoff,
	}}
	w.snd = s
	w.log.add(wEvent{Kind: "sender_start", Gen: s.gen})
	go s.broker.Start(s.stop, s.done)
	return s
}

// crashSender parks the running sender instance (process death)
func (w *world) crashSender() {
	s := w.snd
	if s == nil {
		return
	}
	s.dmu.Lock()
	s.dead = true
	s.dmu.Unlock()
	w.log.add(wEvent{Kind: "sender_crash", Gen: s.gen})
}

func (w *world) crashReceiver() {
	w.recv.crash()
	w.log.add(wEvent{Kind: "receiver_crash", Gen: w.recvGen})
}

// restartReceiver boots a new Stage over the same directories and runs Recover
func (w *world) restartReceiver() {
	w.recvGen++
	w.recv.reboot(w.recv.Disp.consume)
	w.recv.restamp()
	w.log.add(wEvent{Kind: "receiver_restart", Gen: w.recvGen})
	w.recv.Stage.Recover()
	w.log.add(wEvent{Kind: "receiver_recovered", Gen: w.recvGen})
}

// ---- latency

func (w *world) lat() {
	if !w.latency || w.conf.MaxLatency <= 0 {
		return
	}
	w.fmu.Lock()
	d := time.Duration(w.rng.Int63n(int64(w.conf.MaxLatency) + 1))
	if w.rng.Intn(40) == 0 {
		d += time.Duration(w.rng.Intn(90)) * time.Second
	}
	w.fmu.Unlock()
	time.Sleep(d)
}

// pick the fault for the nth request of a class
func (w *world) faultFor(class string) (fault, int) {
	w.fmu.Lock()
	defer w.fmu.Unlock()
	w.reqCount[class]++
	w.reqID++
	n := w.reqCount[class]
	for _, f := range w.faults {
		rep := f.Repeat
		if rep < 1 {
			rep = 1
		}
		if classOf(f.Kind) == class && n >= f.Nth && n < f.Nth+rep {
			w.fired = append(w.fired, fmt.Sprintf("%s#%d", f.Kind, n))
			w.lastFaultAt = time.Since(w.start)
			return f, w.reqID
		}
	}
	return fault{}, w.reqID
}

func classOf(kind string) string {
	switch kind {
	case fPollFail, fPollLost:
		return "poll"
	case fRecoverFail:
		return "recovery"
	case fPartialsErr:
		return "partials"
	}
	return "data"
}

// ---------------------------------------------------------------- transport

var errConn = errors.New("connection error (injected)")

func partsOf(p sts.Payload) []partRec {
	var out []partRec
	for _, b := range p.GetParts() {
		beg, n := b.GetSlice()
		out = append(out, partRec{Name: b.GetName(), Prev: b.GetPrev(), Hash: b.GetFileHash(), Renamed: b.GetRenamed(),
			Beg: beg, End: beg + n, Size: b.GetFileSize(), Send: b.GetSendSize()})
	}
	return out
}

func (w *world) addReq(r *wRequest) {
	w.reqMu.Lock()
	w.reqs = append(w.reqs, r)
	w.reqMu.Unlock()
}

func (w *world) requests() []*wRequest {
	w.reqMu.Lock()
	defer w.reqMu.Unlock()
	return append([]*wRequest(nil), w.reqs...)
}

type flipReader struct {
	r   io.Reader
	at  int64
	pos int64
}

func (f *flipReader) Read(p []byte) (int, error) {
	n, err := f.r.Read(p)
	if f.at >= f.pos && f.at < f.pos+int64(n) {
		p[f.at-f.pos] ^= 0x5a
	}
	f.pos += int64(n)
	return n, err
}

// deadReader breaks the request body when the sending process has died
type deadReader struct {
	r io.Reader
	s *sender
}

func (d *deadReader) Read(p []byte) (int, error) {
	if d.s.isDead() {
		return 0, errConn
	}
	return d.r.Read(p)
}

type cutReader struct {
	r     io.Reader
	left  int64
	onCut func()
}

func (c *cutReader) Read(p []byte) (int, error) {
	if c.left <= 0 {
		return 0, errConn
	}
	if int64(len(p)) > c.left {
		p = p[:c.left]
	}
	n, err := c.r.Read(p)
	c.left -= int64(n)
	return n, err
}

// transmit mirrors http.Client.Transmit + Server.routeData
func (s *sender) transmit(p sts.Payload) (n int, err error) {
	w := s.w
	s.action("transmit:call")
	f, id := w.faultFor("data")
	req := &wRequest{ID: id, Class: "data", Gen: s.gen, Parts: partsOf(p), Fault: f.Kind, At: w.vt()}
	req.Acked = make([]bool, len(req.Parts))
	w.addReq(req)
	req.Seq = w.log.add(wEvent{Kind: "data_req", Req: id, A: int64(len(req.Parts)), S: f.Kind, Gen: s.gen})
	defer func() {
		req.N = n
		if err != nil {
			req.Err = err.Error()
		}
		req.End = w.vt()
		w.log.add(wEvent{Kind: "data_ans", Req: id, A: int64(n), S: req.Err, Gen: s.gen})
		s.action("transmit:return")
	}()
	w.lat()
	if s.isDead() {
		vfs.Park()
	}
	// (the harness asks the receiver for its listing now and then: while it does, no data
	// request may be inside Receive - that holds the file's lock across the virtual
	// pauses of the body stream, a waiter on that lock would stop the virtual clock,
	// and the stream could never finish)
	for w.holdData.Load() {
		time.Sleep(20 * time.Millisecond)
	}
	w.dataInFlight.Add(1)
	defer w.dataInFlight.Add(-1)
	meta, herr := p.EncodeHeader()
	if herr != nil {
		return 0, herr
	}
	enc := p.GetEncoder()
	defer enc.Close()
	switch f.Kind {
	case fRefuse:
		return 0, fmt.Errorf("bin failed with response code: 500")
	case fUnavailable:
		return 0, errConn
	}
	gk := w.recv
	type txRes struct {
		n   int
		err error
	}
	r, died := serverCall(gk, func() txRes {
		n, err := func() (int, error) {
			if gk.Dom.Dead() {
				return 0, errConn
			}
			if !gk.Stage.Ready() {
				return 0, fmt.Errorf("bin failed with response code: 503")
			}
			var stream io.Reader = &deadReader{r: io.MultiReader(bytes.NewReader(meta), enc), s: s}
			if w.conf.Gzip != 0 {
				pr, pw := io.Pipe()
				gz, gerr := gzip.NewWriterLevel(pw, w.conf.Gzip)
				if gerr != nil {
					return 0, gerr
				}
				src := stream
				go func() {
					_, cerr := io.Copy(gz, src)
					_ = gz.Close()
					_ = pw.CloseWithError(cerr)
				}()
				zr, zerr := gzip.NewReader(pr)
				if zerr != nil {
					return 0, zerr
				}
				stream = zr
				defer pr.Close()
			}
			dec, derr := payload.NewDecoder(len(meta), string(os.PathSeparator), stream)
			if derr != nil {
				return 0, fmt.Errorf("bin failed with response code: 500")
			}
			parts := dec.GetParts()
			for i, p := range parts {
				if i < len(req.Parts) && req.Parts[i].Name == p.GetName() && req.Parts[i].Hash != p.GetFileHash() {
					req.Parts[i].Hash0 = req.Parts[i].Hash
					req.Parts[i].Hash = p.GetFileHash()
					req.Parts[i].Size = p.GetFileSize()
				}
			}
			gk.Stage.Prepare(parts)
			gk.restamp()
			index := 0
			for {
				next, eof := dec.Next()
				if eof {
					break
				}
				if index >= len(parts) {
					return 0, fmt.Errorf("bin failed with response code: 400")
				}
				if f.K == index {
					switch f.Kind {
					case fCutBefore:
						return 0, errConn
					case fFailPart:
						// the receiver fails to take this part: partial-content answer
						w.lat()
						return index, fmt.Errorf("bin failed validation; successful part(s): %d", index)
					case fCutMid:
						b, e := parts[index].GetSlice()
						keep := (e - b) / 2
						next = &cutReader{r: next, left: keep}
					case fCorrupt:
						b, e := parts[index].GetSlice()
						next = &flipReader{r: next, at: (e - b) / 2}
					}
				}
				file := &sts.Partial{
					Name: parts[index].GetName(), Renamed: parts[index].GetRenamed(), Prev: parts[index].GetPrev(),
					Size: parts[index].GetFileSize(), Time: marshal.NanoTime{Time: parts[index].GetFileTime()},
					Hash: parts[index].GetFileHash(), Source: "src",
				}
				beg, end := parts[index].GetSlice()
				file.Parts = append(file.Parts, &sts.ByteRange{Beg: beg, End: end})
				if gk.Dom.Dead() {
					return 0, errConn
				}
				rerr := gk.Stage.Receive(file, next)
				gk.restamp()
				if gk.Dom.Dead() {
					return 0, errConn
				}
				if rerr != nil {
					if f.Kind == fCutMid && f.K == index {
						return 0, errConn // the client never sees the partial-content answer
					}
					return index, fmt.Errorf("bin failed validation; successful part(s): %d", index)
				}
				if index < len(req.Acked) {
					req.Acked[index] = true
				}
				w.log.add(wEvent{Kind: "recv_part", Req: id, Name: file.Name, A: beg, B: end, S: file.Hash})
				index++
			}
			if f.Kind == fLostAnswer {
				w.lat()
				return 0, errConn
			}
			w.lat()
			return len(parts), nil
		}()
		return txRes{n, err}
	})
	if died {
		return 0, errConn
	}
	return r.n, r.err
}

// recoverTx mirrors http.Client.RecoverTransmission + routeDataRecovery
func (s *sender) recoverTx(p sts.Payload) (n int, err error) {
	w := s.w
	s.action("recovertx:call")
	f, id := w.faultFor("recovery")
	req := &wRequest{ID: id, Class: "recovery", Gen: s.gen, Parts: partsOf(p), Fault: f.Kind, At: w.vt()}
	req.Seq = w.log.add(wEvent{Kind: "recovery_req", Req: id, Gen: s.gen})
	w.addReq(req)
	defer func() {
		req.N = n
		if err != nil {
			req.Err = err.Error()
		}
		req.End = w.vt()
		w.log.add(wEvent{Kind: "recovery_ans", Req: id, A: int64(n), S: req.Err, Gen: s.gen})
		s.action("recovertx:return")
	}()
	w.lat()
	if f.Kind == fRecoverFail {
		return 0, fmt.Errorf("transmission recovery request failed with response code: 500")
	}
	gk := w.recv
	if gk.Dom.Dead() {
		return 0, errConn
	}
	if !gk.Stage.Ready() {
		return 0, fmt.Errorf("transmission recovery request failed with response code: 503")
	}
	meta, herr := p.EncodeHeader()
	if herr != nil {
		return 0, herr
	}
	dec, derr := payload.NewDecoder(0, string(os.PathSeparator), bytes.NewReader(meta))
	if derr != nil {
		return 0, fmt.Errorf("transmission recovery request failed with response code: 500")
	}
	var died bool
	n, died = serverCall(gk, func() int { return gk.Stage.Received(dec.GetParts()) })
	if died || gk.Dom.Dead() {
		return 0, errConn
	}
	w.lat()
	return n, nil
}

type polled struct {
	sts.Pollable
	code int
}

func (c *polled) NotFound() bool { return c.code == sts.ConfirmNone }
func (c *polled) Waiting() bool  { return c.code == sts.ConfirmWaiting }
func (c *polled) Failed() bool   { return c.code == sts.ConfirmFailed }
func (c *polled) Received() bool { return c.code == sts.ConfirmPassed }

// validate mirrors http.Client.Validate + routeValidate
func (s *sender) validate(sent []sts.Pollable) (out []sts.Polled, err error) {
	w := s.w
	s.action("validate:call")
	f, id := w.faultFor("poll")
	req := &wRequest{ID: id, Class: "poll", Gen: s.gen, Fault: f.Kind, At: w.vt(), Codes: map[string]int{}, Hashes: map[string]string{}, Sizes: map[string]int64{}}
	for _, p := range sent {
		req.Names = append(req.Names, p.GetName())
		req.Hashes[p.GetName()] = p.GetHash()
		req.Sizes[p.GetName()] = p.GetSize()
	}
	req.Seq = w.log.add(wEvent{Kind: "poll_req", Req: id, A: int64(len(sent)), Gen: s.gen})
	w.addReq(req)
	defer func() {
		if err != nil {
			req.Err = err.Error()
		}
		req.End = w.vt()
		w.log.add(wEvent{Kind: "poll_ans", Req: id, A: int64(len(out)), S: req.Err, Gen: s.gen})
		s.action("validate:return")
	}()
	w.lat()
	if f.Kind == fPollFail {
		return nil, fmt.Errorf("poll request failed: 500")
	}
	gk := w.recv
	if gk.Dom.Dead() {
		return nil, errConn
	}
	if !gk.Stage.Ready() {
		return nil, fmt.Errorf("poll request failed: 503")
	}
	fmap := map[string]sts.Pollable{}
	for _, p := range sent {
		fmap[p.GetName()] = p
	}
	resp, died := serverCall(gk, func() map[string]int {
		resp := map[string]int{}
		for _, p := range sent {
			// the wire carries the start time as unix seconds
			resp[p.GetName()] = gk.Stage.GetFileStatus(p.GetName(), time.Unix(p.GetStarted().Unix(), 0))
		}
		return resp
	})
	if died || gk.Dom.Dead() {
		return nil, errConn
	}
	for name, code := range resp {
		req.Codes[name] = code
		if w.onStatus != nil {
			w.onStatus(name, code)
		}
	}
	if f.Kind == fPollLost {
		w.lat()
		return nil, errConn
	}
	for name, code := range resp {
		out = append(out, &polled{Pollable: fmap[name], code: code})
		w.log.add(wEvent{Kind: "poll_code", Req: id, Name: name, A: int64(code), Gen: s.gen})
	}
	w.lat()
	return out, nil
}

// recoverReq mirrors http.Client.Recover + routePartials
func (s *sender) recoverReq() (ps []*sts.Partial, err error) {
	w := s.w
	s.action("partials:call")
	f, id := w.faultFor("partials")
	req := &wRequest{ID: id, Class: "partials", Gen: s.gen, Fault: f.Kind, At: w.vt()}
	req.Seq = w.log.add(wEvent{Kind: "partials_req", Req: id, Gen: s.gen})
	w.addReq(req)
	defer func() {
		if err != nil {
			req.Err = err.Error()
		}
		for _, p := range ps {
			for _, r := range p.Parts {
				req.Parts = append(req.Parts, partRec{Name: p.Name, Hash: p.Hash, Prev: p.Prev, Beg: r.Beg, End: r.End, Size: p.Size})
			}
			if len(p.Parts) == 0 {
				req.Parts = append(req.Parts, partRec{Name: p.Name, Hash: p.Hash, Prev: p.Prev, Size: p.Size})
			}
		}
		req.End = w.vt()
		w.log.add(wEvent{Kind: "partials_ans", Req: id, A: int64(len(ps)), S: req.Err, Gen: s.gen})
		s.action("partials:return")
	}()
	w.lat()
	if f.Kind == fPartialsErr {
		return nil, fmt.Errorf("partials request failed")
	}
	gk := w.recv
	if gk.Dom.Dead() {
		return nil, errConn
	}
	if !gk.Stage.Ready() {
		return nil, fmt.Errorf("partials: 503")
	}
	type scanRes struct {
		b   []byte
		err error
	}
	sr, died := serverCall(gk, func() scanRes {
		b, err := gk.Stage.Scan("1")
		return scanRes{b, err}
	})
	if died {
		return nil, errConn
	}
	if sr.err != nil {
		return nil, sr.err
	}
	ps, err = stage.ReadCompanions(bytes.NewReader(sr.b))
	w.lat()
	return
}

// ---------------------------------------------------------------- wrappers

type storeWrap struct{ s *sender }

func (t *storeWrap) Scan(allow func(sts.File) bool) ([]sts.File, time.Time, error) {
	t.s.action("store:scan")
	vfs.RestampTree(t.s.w.outDir, time.Now())
	begin := t.s.w.log.size() // events before this point precede everything the scan looks at
	files, tm, err := t.s.store.Scan(allow)
	var names []string
	for _, f := range files {
		names = append(names, f.GetName())
	}
	t.s.w.log.add(wEvent{Kind: "scan", A: int64(len(files)), B: int64(begin), S: strings.Join(names, ","), Gen: t.s.gen})
	t.s.action("store:scan:return")
	return files, tm, err
}
func (t *storeWrap) GetOpener() sts.Open {
	return func(f sts.File) (sts.Readable, error) {
		if t.s.isDead() {
			// the process is gone: whoever still pulls data (the receiver's handler
			// reading the request body) sees the stream break
			return nil, errConn
		}
		// hashing and payload encoding open source files: a boundary action, so that
		// stops and crashes can also arrive in the middle of a scan's hashing phase
		t.s.actionNoPark("store:open")
		if t.s.isDead() {
			return nil, errConn
		}
		if t.s.gen == 1 {
			for _, n := range t.s.w.conf.OpenFailGen1 {
				if n == f.GetName() {
					return nil, fmt.Errorf("open %s: permission denied (injected)", f.GetPath())
				}
			}
		}
		return t.s.store.Open(f)
	}
}
func (t *storeWrap) Remove(f sts.File) error {
	// called under the cache lock (finish) or from the scan clean-up: never sleep here
	// (a crash decided here makes the call fail instead of parking the caller inside
	// the cache's critical section, where it would block its own instance's other
	// goroutines on a mutex and, with them, the virtual clock)
	if t.s.isDead() {
		return errConn
	}
	t.s.actionNoPark("store:remove")
	if t.s.isDead() {
		return errConn
	}
	if t.s.w.onRemove != nil {
		t.s.w.onRemove(f.GetName(), f.GetPath())
	}
	t.s.w.log.add(wEvent{Kind: "remove", Name: f.GetName(), Gen: t.s.gen})
	err := t.s.store.Remove(f)
	t.s.actionNoPark("store:remove:return")
	return err
}
func (t *storeWrap) Sync(f sts.File) (sts.File, error) {
	if t.s.isDead() {
		vfs.Park()
	}
	return t.s.store.Sync(f)
}
func (t *storeWrap) IsNotExist(err error) bool    { return t.s.store.IsNotExist(err) }
func (t *storeWrap) ShouldIgnore(f sts.File) bool { return t.s.store.ShouldIgnore(f) }

type cacheWrap struct{ s *sender }

func (t *cacheWrap) park() {
	if t.s.isDead() {
		vfs.Park()
	}
}
func (t *cacheWrap) Iterate(f func(sts.Cached) bool) { t.park(); t.s.cache.Iterate(f) }
func (t *cacheWrap) Get(k string) sts.Cached         { t.park(); return t.s.cache.Get(k) }
func (t *cacheWrap) Add(h sts.Hashed) {
	t.s.action("cache:add")
	t.s.w.log.add(wEvent{Kind: "cache_add", Name: h.GetName(), A: h.GetSize(), B: h.GetTime().UnixNano(), S: h.GetHash(), Gen: t.s.gen})
	t.s.cache.Add(h)
}
func (t *cacheWrap) Done(name string, whileLocked func(sts.Cached)) {
	t.s.action("cache:done")
	t.s.cache.Done(name, func(c sts.Cached) {
		t.s.w.log.add(wEvent{Kind: "cache_done", Name: name, S: c.GetHash(), Gen: t.s.gen})
		if t.s.w.onDone != nil {
			t.s.w.onDone(name, c)
		}
		if whileLocked != nil {
			whileLocked(c)
		}
	})
	t.s.action("cache:done:return")
}
func (t *cacheWrap) Reset(k string) { t.park(); t.s.cache.Reset(k) }
func (t *cacheWrap) Remove(k string) {
	t.s.action("cache:remove")
	t.s.w.log.add(wEvent{Kind: "cache_remove", Name: k, Gen: t.s.gen})
	t.s.cache.Remove(k)
}
func (t *cacheWrap) Persist() error {
	t.s.action("cache:persist")
	err := t.s.cache.Persist()
	t.s.w.log.add(wEvent{Kind: "cache_persist", Gen: t.s.gen})
	t.s.action("cache:persist:return")
	return err
}

type queueWrap struct{ s *sender }

func (t *queueWrap) Push(files []sts.Hashed) {
	if t.s.isDead() {
		vfs.Park()
	}
	for _, f := range files {
		kind := "plain"
		if r, ok := f.(sts.Recovered); ok {
			kind = "recovered"
			if r.IsAllocated() {
				kind = "placeholder"
			}
		}
		t.s.w.log.add(wEvent{Kind: "q_push", Name: f.GetName(), A: f.GetSize(), S: kind, Gen: t.s.gen})
	}
	t.s.queue.Push(files)
}
func (t *queueWrap) Pop() sts.Sendable {
	if t.s.isDead() {
		vfs.Park()
	}
	sd := t.s.queue.Pop()
	if sd != nil {
		off, n := sd.GetSlice()
		t.s.w.log.add(wEvent{Kind: "q_pop", Name: sd.GetName(), A: off, B: off + n, S: sd.GetPrev(), Gen: t.s.gen})
	}
	return sd
}

type sentLogWrap struct{ s *sender }

func (t *sentLogWrap) Sent(f sts.Sent) {
	t.s.action("sentlog:sent")
	t.s.w.log.add(wEvent{Kind: "sent_logged", Name: f.GetName(), A: f.GetSize(), S: f.GetHash(), Gen: t.s.gen})
	t.s.logger.Sent(f)
	t.s.action("sentlog:sent:return")
}
func (t *sentLogWrap) WasSent(name, hash string, after, before time.Time) bool {
	if t.s.isDead() {
		vfs.Park()
	}
	return t.s.logger.WasSent(name, hash, after, before)
}

// ---------------------------------------------------------------- helpers for oracles

// waitDone waits (virtual time) for the sender's Start to return
func (s *sender) waitDone(d time.Duration) bool {
	select {
	case <-s.done:
		return true
	case <-time.After(d):
		return false
	}
}

// finalFiles returns rel path -> md5 of everything under the final directory
func (w *world) finalFiles() map[string]string {
	out := map[string]string{}
	for _, rel := range treeListing(w.recv.FinalDir) {
		b, err := os.ReadFile(filepath.Join(w.recv.FinalDir, rel))
		if err == nil {
			out[rel] = md5hex(b)
		}
	}
	return out
}

func (w *world) stagedFiles() []string { return treeListing(w.recv.StageDir) }

func (w *world) sourceFiles() []string {
	var out []string
	for _, f := range treeListing(w.outDir) {
		out = append(out, f)
	}
	return out
}

// cacheOnDisk re-reads the persisted queue cache
func (w *world) cacheOnDisk() map[string]bool {
	c, err := cache.NewJSON(w.cacheDir, w.outDir, "")
	out := map[string]bool{}
	if err != nil {
		return out
	}
	c.Iterate(func(f sts.Cached) bool {
		out[f.GetName()] = f.IsDone()
		return false
	})
	return out
}

func targetName(w *world, name string) string {
	if w.conf.Rename {
		return renameOf(name)
	}
	return name
}
