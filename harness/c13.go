package harness

import (
	"bytes"
	"compress/gzip"
	"fmt"
	"io"
	"math/rand"
	"net"
	nethttp "net/http"
	"os"
	"path/filepath"
	"strconv"
	"strings"
	"sync"
	"time"

	"github.com/arm-doe/sts"
	stshttp "github.com/arm-doe/sts/http"
	"github.com/arm-doe/sts/payload"
	"github.com/arm-doe/sts/stage"
)

// C13 — the payload wire format round-trips.
//
// (a) in memory: payload.NewBin + harness Binnables -> EncodeHeader/GetEncoder
//     -> optional gzip 0-9 -> payload.NewDecoder read through buffers of all sizes;
// (b) over real HTTP on loopback: http.Client.Transmit -> real Server.routeData
//     -> recording GateKeeper;
// (c) hostile / truncated raw requests against the real server.

func init() { register("C13", runC13) }

// hBinnable implements sts.Binnable over in-memory data
type hBinnable struct {
	name, prev, hash string
	size             int64
	time             time.Time
	off, length      int64
	alloc            int64
}

func (b *hBinnable) GetPath() string              { return "/mem/" + b.name }
func (b *hBinnable) GetName() string              { return b.name }
func (b *hBinnable) GetSize() int64               { return b.size }
func (b *hBinnable) GetTime() time.Time           { return b.time }
func (b *hBinnable) GetMeta() []byte              { return nil }
func (b *hBinnable) GetHash() string              { return b.hash }
func (b *hBinnable) GetPrev() string              { return b.prev }
func (b *hBinnable) GetSlice() (int64, int64)     { return b.off, b.length }
func (b *hBinnable) GetSendSize() int64           { return b.size }
func (b *hBinnable) GetNextAlloc() (int64, int64) { return b.off + b.alloc, b.off + b.length }
func (b *hBinnable) AddAlloc(n int64)             { b.alloc += n }
func (b *hBinnable) IsAllocated() bool            { return b.alloc == b.length }

type memReadable struct{ *bytes.Reader }

func (memReadable) Close() error { return nil }

type c13Part struct {
	Name    string `json:"name"`
	Renamed string `json:"renamed"`
	Prev    string `json:"prev"`
	Size    int64  `json:"size"`
	Beg     int64  `json:"beg"`
	End     int64  `json:"end"`
	TimeNs  int64  `json:"time_unix_nano"`
}

type c13Scenario struct {
	Mode  string    `json:"mode"`
	Gzip  int       `json:"gzip"`
	Sep   string    `json:"sep"`
	Buf   int       `json:"read_buffer"`
	Parts []c13Part `json:"parts"`
	Cut   int       `json:"cut_at,omitempty"`
	Note  string    `json:"note,omitempty"`
}

var c13Names = []string{"a.dat", "dir/b.dat", "dir/sub/c d.dat", "ünï/cödé.bin", "x:y.dat", "tab\tname", "a..b/c", "q?&=.dat", "名前/ファイル", "dir\\win\\style.dat", "p%20q.dat"}

func c13Build(rng *rand.Rand, sc *c13Scenario, sep string) (sts.Payload, map[string][]byte, []*hBinnable) {
	files := map[string][]byte{}
	opener := func(f sts.File) (sts.Readable, error) {
		d, ok := files[f.GetName()]
		if !ok {
			return nil, fmt.Errorf("no such file %s", f.GetName())
		}
		return memReadable{bytes.NewReader(d)}, nil
	}
	var renamer sts.Rename
	if rng.Intn(3) == 0 {
		renamer = func(f sts.File) string { return "ren/" + strings.ReplaceAll(f.GetName(), "/", "_") }
	}
	nparts := 1 + rng.Intn(7)
	var total int64
	var bs []*hBinnable
	for i := 0; i < nparts; i++ {
		name := c13Names[rng.Intn(len(c13Names))]
		if sep == "\\" {
			name = strings.ReplaceAll(name, "/", "\\")
		}
		name = fmt.Sprintf("%d%s%s", i, sep, name)
		size := int64(1 + rng.Intn(5000))
		switch rng.Intn(5) {
		case 0:
			size = 1
		case 1:
			size = int64(1 + rng.Intn(70000))
		}
		data := randBytes(rng, size)
		same := i > 0 && rng.Intn(3) == 0
		if same {
			// another slice of the file the previous part belongs to (a resumed file's
			// missing ranges, or a big file's chunks, share a payload): adjacent to the
			// previous slice, after a gap, or before it
			pb := bs[i-1]
			name, size, data = pb.name, pb.size, files[pb.name]
		}
		files[name] = data
		var off, ln int64
		if same {
			pb := bs[i-1]
			pend := pb.off + pb.length
			switch k := rng.Intn(4); {
			case k == 0 && pend < size: // adjacent
				off = pend
				ln = 1 + rng.Int63n(size-off)
			case k <= 2 && pend+1 < size: // after a gap
				off = pend + 1 + rng.Int63n(size-pend-1)
				ln = 1 + rng.Int63n(size-off)
			default: // anywhere (also before, or overlapping)
				off = rng.Int63n(size)
				ln = 1 + rng.Int63n(size-off)
			}
		} else {
			off, ln = c13Slice(rng, size)
		}
		ft := time.Unix(1600000000+rng.Int63n(1e8), rng.Int63n(1e9))
		if rng.Intn(6) == 0 {
			// file times at and beyond the edges: before 1970, outside the range a
			// nanosecond count can hold (1677..2262), the zero time, whole seconds
			ft = []time.Time{
				time.Date(1965, 3, 1, 12, 0, 0, 123456789, time.UTC),
				time.Unix(0, 0),
				time.Date(2262, 4, 11, 23, 47, 16, 854775807, time.UTC),
				time.Date(2300, 1, 1, 0, 0, 0, 500000001, time.UTC),
				time.Date(2446, 5, 10, 22, 38, 55, 1, time.UTC),
				time.Date(1601, 1, 1, 0, 0, 0, 999999999, time.UTC),
				{},
				time.Unix(1700000000, 0),
				time.Date(9999, 12, 31, 23, 59, 59, 999999999, time.UTC),
			}[rng.Intn(9)]
		}
		b := &hBinnable{name: name, size: size, hash: md5hex(data), off: off, length: ln, time: ft}
		if rng.Intn(2) == 0 {
			b.prev = fmt.Sprintf("%d%sprev%s%s", i, sep, sep, c13Names[rng.Intn(3)])
			if sep == "\\" {
				b.prev = strings.ReplaceAll(b.prev, "/", "\\")
			}
		}
		bs = append(bs, b)
		total += ln
	}
	bin := payload.NewBin(total, opener, renamer)
	for _, b := range bs {
		if !bin.Add(b) {
			panic("harness: bin refused part")
		}
		rn := ""
		if renamer != nil {
			rn = renamer(b)
		}
		sc.Parts = append(sc.Parts, c13Part{Name: b.name, Renamed: rn, Prev: b.prev, Size: b.size, Beg: b.off, End: b.off + b.length, TimeNs: b.time.UnixNano()})
	}
	return bin, files, bs
}

// what the receiver should see as the name
func c13Slice(rng *rand.Rand, size int64) (off, ln int64) {
	switch rng.Intn(4) {
	case 0: // whole
		off, ln = 0, size
	case 1: // start
		off, ln = 0, 1+rng.Int63n(size)
	case 2: // end
		off = rng.Int63n(size)
		ln = size - off
	default: // middle
		off = rng.Int63n(size)
		ln = 1 + rng.Int63n(size-off)
	}
	return
}

func c13Translate(name, sep string) string {
	if name == "" {
		return ""
	}
	if sep == "" {
		return name
	}
	return filepath.Join(strings.Split(name, sep)...)
}

type limitBufReader struct {
	r   io.Reader
	max int
}

func (l *limitBufReader) Read(p []byte) (int, error) {
	if len(p) > l.max {
		p = p[:l.max]
	}
	return l.r.Read(p)
}

func runC13(c *Ctx) {
	n := c.N(2000, 60000)
	for i := 0; i < n; i++ {
		if !c.Mine(i) {
			continue
		}
		rng := c.Rng(i)
		sc := &c13Scenario{Mode: "memory"}
		c.Guard(i, sc, func() { c13Memory(c, i, rng, sc) })
	}
	// HTTP part: one real server per child process
	nh := c.N(150, 3000)
	nt := c.N(300, 10000)
	srv := startC13Server(c)
	if srv == nil {
		c.Res.Inconc("could not start the HTTP server on any port")
		return
	}
	defer srv.stop()
	for i := 0; i < nh+nt; i++ {
		idx := 1_000_000 + i
		if !c.Mine(idx) {
			continue
		}
		rng := c.Rng(idx)
		sc := &c13Scenario{Mode: "http"}
		if i >= nh {
			sc.Mode = "http-hostile"
		}
		c.Guard(idx, sc, func() { c13HTTP(c, idx, rng, sc, srv) })
	}
}

func c13Memory(c *Ctx, idx int, rng *rand.Rand, sc *c13Scenario) {
	res := c.Res
	res.Eval()
	viol := func(clause, fp, detail string) {
		res.Violate(Violation{Clause: clause, Fingerprint: "C13/" + fp, Detail: detail, Scenario: sc, Index: idx})
	}
	sc.Sep = []string{"/", "/", "\\"}[rng.Intn(3)]
	sc.Gzip = rng.Intn(11) - 1 // -1 = no gzip, 0..9 levels
	sc.Buf = []int{1, 2, 7, 64, 511, 4096, 32768, 1 << 20}[rng.Intn(8)]
	bin, files, bs := c13Build(rng, sc, sc.Sep)
	meta, err := bin.EncodeHeader()
	if err != nil {
		viol("encode", "encode-header-error", err.Error())
		return
	}
	enc := bin.GetEncoder()
	defer enc.Close()
	var stream io.Reader = io.MultiReader(bytes.NewReader(meta), enc)
	if sc.Gzip >= 0 {
		var buf bytes.Buffer
		gz, _ := gzip.NewWriterLevel(&buf, sc.Gzip)
		if _, err := io.Copy(gz, stream); err != nil {
			viol("encode", "encode-stream-error", err.Error())
			return
		}
		gz.Close()
		zr, err := gzip.NewReader(&buf)
		if err != nil {
			res.Inconc("gzip: " + err.Error())
			return
		}
		stream = zr
	}
	stream = &limitBufReader{r: stream, max: sc.Buf}
	dec, err := payload.NewDecoder(len(meta), sc.Sep, stream)
	if err != nil {
		viol("decode", "decode-header-error", fmt.Sprintf("NewDecoder failed on a well-formed payload: %v", err))
		return
	}
	got := dec.GetParts()
	if len(got) != len(bs) {
		viol("descriptors", "part-count", fmt.Sprintf("decoded %d parts, encoded %d", len(got), len(bs)))
		return
	}
	for i, b := range bs {
		g := got[i]
		gb, ge := g.GetSlice()
		want := sc.Parts[i]
		if g.GetName() != c13Translate(b.name, sc.Sep) || g.GetPrev() != c13Translate(b.prev, sc.Sep) || g.GetRenamed() != want.Renamed ||
			g.GetFileHash() != b.hash || g.GetFileSize() != b.size || gb != b.off || ge != b.off+b.length || !g.GetFileTime().Equal(b.time) {
			viol("descriptors", "descriptor-mismatch", fmt.Sprintf("part %d: decoded {name %q prev %q renamed %q hash %s size %d range %d-%d time %d} != encoded {name %q prev %q renamed %q hash %s size %d range %d-%d time %d} (sep %q)",
				i, g.GetName(), g.GetPrev(), g.GetRenamed(), g.GetFileHash(), g.GetFileSize(), gb, ge, g.GetFileTime().UnixNano(),
				c13Translate(b.name, sc.Sep), c13Translate(b.prev, sc.Sep), want.Renamed, b.hash, b.size, b.off, b.off+b.length, b.time.UnixNano(), sc.Sep))
			return
		}
		r, eof := dec.Next()
		if eof {
			viol("bytes", "part-missing", fmt.Sprintf("decoder ended before part %d", i))
			return
		}
		data, rerr := io.ReadAll(&limitBufReader{r: r, max: 1 + rng.Intn(sc.Buf+1)})
		wantBytes := files[b.name][b.off : b.off+b.length]
		if rerr != nil || !bytes.Equal(data, wantBytes) {
			viol("bytes", "part-bytes", fmt.Sprintf("part %d (%s %d-%d): read %d bytes (err %v), equal=%v", i, b.name, b.off, b.off+b.length, len(data), rerr, bytes.Equal(data, wantBytes)))
			return
		}
		res.Count("parts_roundtripped", 1)
	}
	if _, eof := dec.Next(); !eof {
		viol("bytes", "extra-part", "decoder offers a part beyond the header's list")
	}
	// ---- the same payload object encoded again, as the sender does after a failed
	// request: unchanged (retry), after Remove of a part whose file changed, after a
	// Split at the number of parts the receiver acknowledged
	cur := bin
	for round := 0; round < 3 && rng.Intn(3) != 0; round++ {
		parts := cur.GetParts()
		op := "retry"
		switch k := rng.Intn(3); {
		case k == 1 && len(parts) > 1:
			op = "remove"
			cur.Remove(parts[rng.Intn(len(parts))])
		case k == 2 && len(parts) > 1:
			op = "split"
			n := 1 + rng.Intn(len(parts)-1)
			if rest := cur.Split(n); rest != nil {
				if rng.Intn(2) == 0 {
					cur = rest
				}
			}
		}
		sc.Note += op + ";"
		if fp, detail := c13MemRound(cur, files, sc, rng); fp != "" {
			viol("re-encoded-payload", "reencode-"+op+"/"+fp, fmt.Sprintf("payload encoded again after %q (history %s): %s", op, sc.Note, detail))
			return
		}
		res.Count("reencode_rounds_"+op, 1)
	}
	if len(bs) >= 2 || bs[0].off > 0 {
		res.NonTrivial(fmt.Sprintf("mem/%d/%s/%d/%v/%s", sc.Gzip, sc.Sep, sc.Buf, sc.Parts, sc.Note))
	}
	res.Sample(sc)
}

// c13MemRound encodes the payload as it is now and decodes it; what is decoded
// must be the payload's current part list with each part's own bytes.
func c13MemRound(bin sts.Payload, files map[string][]byte, sc *c13Scenario, rng *rand.Rand) (string, string) {
	want := bin.GetParts()
	meta, err := bin.EncodeHeader()
	if err != nil {
		return "encode-header-error", err.Error()
	}
	enc := bin.GetEncoder()
	defer enc.Close()
	var stream io.Reader = io.MultiReader(bytes.NewReader(meta), enc)
	if sc.Gzip >= 0 {
		var buf bytes.Buffer
		gz, _ := gzip.NewWriterLevel(&buf, sc.Gzip)
		if _, err := io.Copy(gz, stream); err != nil {
			return "encode-stream-error", err.Error()
		}
		gz.Close()
		zr, err := gzip.NewReader(&buf)
		if err != nil {
			return "", ""
		}
		stream = zr
	}
	stream = &limitBufReader{r: stream, max: sc.Buf}
	dec, err := payload.NewDecoder(len(meta), sc.Sep, stream)
	if err != nil {
		return "decode-header-error", err.Error()
	}
	got := dec.GetParts()
	if len(got) != len(want) {
		return "part-count", fmt.Sprintf("the payload holds %d parts, the receiver decoded %d", len(want), len(got))
	}
	for i, w := range want {
		g := got[i]
		gb, ge := g.GetSlice()
		wb, wl := w.GetSlice() // the sender's part reports (offset, length)
		we := wb + wl
		if g.GetName() != c13Translate(w.GetName(), sc.Sep) || g.GetPrev() != c13Translate(w.GetPrev(), sc.Sep) || g.GetRenamed() != w.GetRenamed() ||
			g.GetFileHash() != w.GetFileHash() || g.GetFileSize() != w.GetFileSize() || gb != wb || ge != we || !g.GetFileTime().Equal(w.GetFileTime()) {
			return "descriptor-mismatch", fmt.Sprintf("part %d: decoded {%q %d-%d hash %s} but the payload's part %d is {%q %d-%d hash %s}", i, g.GetName(), gb, ge, g.GetFileHash(), i, w.GetName(), wb, we, w.GetFileHash())
		}
		r, eof := dec.Next()
		if eof {
			return "part-missing", fmt.Sprintf("decoder ended before part %d", i)
		}
		data, rerr := io.ReadAll(&limitBufReader{r: r, max: 1 + rng.Intn(sc.Buf+1)})
		wantBytes := files[w.GetName()][wb:we]
		if rerr != nil || !bytes.Equal(data, wantBytes) {
			return "part-bytes", fmt.Sprintf("part %d (%s %d-%d): read %d bytes (err %v), equal=%v", i, w.GetName(), wb, we, len(data), rerr, bytes.Equal(data, wantBytes))
		}
	}
	if _, eof := dec.Next(); !eof {
		return "extra-part", "decoder offers a part beyond the header's list"
	}
	return "", ""
}

// ---- real HTTP

type recGK struct {
	mu    sync.Mutex
	recvd []recPart
	prep  [][]string
	// fault controls (C08's HTTP lane)
	notReady bool // Ready() answers false: the server says 503
	failAt   int  // 1-based index of the Receive call (since the last reset) that fails; 0 = none
	calls    int
	held     int // what Received() reports; -1 = all
}

type recPart struct {
	Name, Renamed, Prev, Hash string
	Size, Beg, End            int64
	TimeNs                    int64
	Data                      []byte
	Err                       string
}

func (g *recGK) Recover()            {}
func (g *recGK) CleanNow()           {}
func (g *recGK) Prune(time.Duration) {}
func (g *recGK) Ready() bool {
	g.mu.Lock()
	defer g.mu.Unlock()
	return !g.notReady
}
func (g *recGK) Scan(string) ([]byte, error) { return []byte("[]"), nil }
func (g *recGK) Stop(bool)                   {}
func (g *recGK) Received(p []sts.Binned) int {
	g.mu.Lock()
	defer g.mu.Unlock()
	if g.held >= 0 && g.held < len(p) {
		return g.held
	}
	return len(p)
}
func (g *recGK) GetFileStatus(string, time.Time) int { return sts.ConfirmNone }
func (g *recGK) Prepare(parts []sts.Binned) {
	g.mu.Lock()
	defer g.mu.Unlock()
	var names []string
	for _, p := range parts {
		names = append(names, p.GetName())
	}
	g.prep = append(g.prep, names)
}
func (g *recGK) Receive(f *sts.Partial, r io.Reader) error {
	g.mu.Lock()
	g.calls++
	fail := g.failAt > 0 && g.calls == g.failAt
	g.mu.Unlock()
	if fail {
		g.mu.Lock()
		g.recvd = append(g.recvd, recPart{Name: f.Name, Beg: f.Parts[0].Beg, End: f.Parts[0].End, Err: "injected receive failure"})
		g.mu.Unlock()
		return fmt.Errorf("injected receive failure")
	}
	data, err := io.ReadAll(r)
	p := recPart{Name: f.Name, Renamed: f.Renamed, Prev: f.Prev, Hash: f.Hash, Size: f.Size, Beg: f.Parts[0].Beg, End: f.Parts[0].End, TimeNs: f.Time.UnixNano(), Data: data}
	if err != nil {
		p.Err = err.Error()
	}
	if err == nil && int64(len(data)) != p.End-p.Beg {
		err = fmt.Errorf("short part")
		p.Err = "short"
	}
	g.mu.Lock()
	g.recvd = append(g.recvd, p)
	g.mu.Unlock()
	return err
}

type c13Server struct {
	denied map[string]bool // sources the validator refuses (403)
	port   int
	gks    map[string]*recGK
	mu     sync.Mutex
	stopCh chan bool
	doneCh chan bool
}

func (s *c13Server) gk(source string) *recGK {
	s.mu.Lock()
	defer s.mu.Unlock()
	g := s.gks[source]
	if g == nil {
		g = &recGK{held: -1}
		s.gks[source] = g
	}
	return g
}

func (s *c13Server) stop() {
	s.stopCh <- true
	select {
	case <-s.doneCh:
	case <-time.After(5 * time.Second):
	}
}

func startC13Server(c *Ctx) *c13Server {
	for try := 0; try < 20; try++ {
		port := 21000 + c.Batch*40 + try*2 + int(c.Seed%7)*700
		l, err := net.Listen("tcp", fmt.Sprintf("127.0.0.1:%d", port))
		if err != nil {
			continue
		}
		l.Close()
		l2, err := net.Listen("tcp", fmt.Sprintf(":%d", port+1))
		if err != nil {
			continue
		}
		l2.Close()
		s := &c13Server{port: port, denied: map[string]bool{}, gks: map[string]*recGK{}, stopCh: make(chan bool, 1), doneCh: make(chan bool, 1)}
		srv := &stshttp.Server{
			Host: "127.0.0.1", Port: port,
			GateKeepers:       map[string]sts.GateKeeper{},
			GateKeeperFactory: func(source string) sts.GateKeeper { return s.gk(source) },
			DecoderFactory:    payload.NewDecoder,
			IsValid: func(source, key string) bool {
				s.mu.Lock()
				defer s.mu.Unlock()
				return !s.denied[source]
			},
		}
		go srv.Serve(s.stopCh, s.doneCh)
		for k := 0; k < 100; k++ {
			conn, err := net.DialTimeout("tcp", fmt.Sprintf("127.0.0.1:%d", port), 200*time.Millisecond)
			if err == nil {
				conn.Close()
				return s
			}
			time.Sleep(30 * time.Millisecond)
		}
	}
	return nil
}

func c13HTTP(c *Ctx, idx int, rng *rand.Rand, sc *c13Scenario, srv *c13Server) {
	res := c.Res
	res.Eval()
	viol := func(clause, fp, detail string) {
		res.Violate(Violation{Clause: clause, Fingerprint: "C13/" + fp, Detail: detail, Scenario: sc, Index: idx})
	}
	source := fmt.Sprintf("src%d", idx)
	sc.Sep = string(os.PathSeparator)
	sc.Gzip = []int{0, 0, 1, 5, 9, -1}[rng.Intn(6)]
	bin, files, bs := c13Build(rng, sc, "/")
	gk := srv.gk(source)
	if sc.Mode == "http" {
		cl := &stshttp.Client{SourceName: source, TargetHost: "127.0.0.1", TargetPort: srv.port, Compression: sc.Gzip,
			Timeout: 20 * time.Second, PartialsDecoder: stage.ReadCompanions}
		defer cl.Destroy()
		n, err := cl.Transmit(bin)
		if err != nil || n != len(bs) {
			viol("http-transmit", "http-transmit-failed", fmt.Sprintf("Transmit of a well-formed payload returned n=%d err=%v", n, err))
			return
		}
		gk.mu.Lock()
		got := append([]recPart(nil), gk.recvd...)
		gk.mu.Unlock()
		if len(got) != len(bs) {
			viol("descriptors", "http-part-count", fmt.Sprintf("receiver saw %d parts, sender encoded %d", len(got), len(bs)))
			return
		}
		for i, b := range bs {
			g := got[i]
			want := files[b.name][b.off : b.off+b.length]
			if g.Name != c13Translate(b.name, "/") || g.Prev != c13Translate(b.prev, "/") || g.Renamed != sc.Parts[i].Renamed || g.Hash != b.hash ||
				g.Size != b.size || g.Beg != b.off || g.End != b.off+b.length || g.TimeNs != b.time.UnixNano() {
				viol("descriptors", "http-descriptor-mismatch", fmt.Sprintf("part %d over HTTP: received %+v, encoded %+v", i, recPart{Name: g.Name, Renamed: g.Renamed, Prev: g.Prev, Hash: g.Hash, Size: g.Size, Beg: g.Beg, End: g.End, TimeNs: g.TimeNs}, sc.Parts[i]))
				return
			}
			if g.Err != "" || !bytes.Equal(g.Data, want) {
				viol("bytes", "http-part-bytes", fmt.Sprintf("part %d over HTTP (%s %d-%d): got %d bytes err=%q equal=%v", i, b.name, b.off, b.off+b.length, len(g.Data), g.Err, bytes.Equal(g.Data, want)))
				return
			}
			res.Count("parts_roundtripped_http", 1)
		}
		// ---- the sender's reaction to a failed request: ask what arrived
		// (the recovery request encodes the header again), drop a part whose file
		// changed, send the same payload object again
		if len(bs) > 1 && rng.Intn(2) == 0 {
			if rng.Intn(2) == 0 {
				_, _ = cl.RecoverTransmission(bin)
				sc.Note += "recovery-request;"
			}
			parts := bin.GetParts()
			op := "retry"
			if rng.Intn(3) != 0 {
				op = "remove"
				bin.Remove(parts[rng.Intn(len(parts))])
			}
			sc.Note += op + ";"
			want := bin.GetParts()
			gk.mu.Lock()
			gk.recvd = nil
			gk.mu.Unlock()
			n, err := cl.Transmit(bin)
			gk.mu.Lock()
			got := append([]recPart(nil), gk.recvd...)
			gk.mu.Unlock()
			if err != nil || n != len(want) || len(got) != len(want) {
				viol("re-encoded-payload", "http-reencode-"+op+"/part-count", fmt.Sprintf("payload sent again after %s: it holds %d parts, Transmit returned n=%d err=%v, the receiver saw %d parts", sc.Note, len(want), n, err, len(got)))
				return
			}
			for i, w := range want {
				g := got[i]
				wb, wl := w.GetSlice() // the sender's part reports (offset, length)
				we := wb + wl
				if g.Name != c13Translate(w.GetName(), "/") || g.Hash != w.GetFileHash() || g.Beg != wb || g.End != we || g.Prev != c13Translate(w.GetPrev(), "/") {
					viol("re-encoded-payload", "http-reencode-"+op+"/descriptor-mismatch", fmt.Sprintf("payload sent again after %s: part %d received as {%s %d-%d}, the payload's part %d is {%s %d-%d}", sc.Note, i, g.Name, g.Beg, g.End, i, w.GetName(), wb, we))
					return
				}
				if g.Err != "" || !bytes.Equal(g.Data, files[w.GetName()][wb:we]) {
					viol("re-encoded-payload", "http-reencode-"+op+"/part-bytes", fmt.Sprintf("payload sent again after %s: part %d (%s %d-%d) arrived with %d bytes err=%q, equal=%v", sc.Note, i, w.GetName(), wb, we, len(g.Data), g.Err, bytes.Equal(g.Data, files[w.GetName()][wb:we])))
					return
				}
			}
			res.Count("http_reencode_rounds_"+op, 1)
		}
		if len(bs) >= 2 || bs[0].off > 0 {
			res.NonTrivial(fmt.Sprintf("http/%d/%v/%s", sc.Gzip, sc.Parts, sc.Note))
		}
		res.Sample(sc)
		return
	}
	// ---- hostile: raw request with a damaged header length / truncated header or body
	meta, _ := bin.EncodeHeader()
	enc := bin.GetEncoder()
	body, _ := io.ReadAll(io.MultiReader(bytes.NewReader(meta), enc))
	enc.Close()
	metaLen := strconv.Itoa(len(meta))
	kind := rng.Intn(7)
	send := body
	switch kind {
	case 0: // header length too small
		metaLen = strconv.Itoa(rng.Intn(len(meta)))
		sc.Note = "meta-len too small: " + metaLen
	case 1: // too large
		metaLen = strconv.Itoa(len(meta) + 1 + rng.Intn(len(body)-len(meta)+10))
		sc.Note = "meta-len too large: " + metaLen
	case 2: // non-numeric
		metaLen = []string{"", "abc", "-5", "1e3", "0x10"}[rng.Intn(5)]
		sc.Note = "meta-len non-numeric: " + metaLen
	case 3: // JSON header cut
		sc.Cut = rng.Intn(len(meta))
		send = body[:sc.Cut]
		sc.Note = "header cut"
	case 4, 5: // body cut at a part boundary +-1 or anywhere
		cut := len(meta)
		b := bs[rng.Intn(len(bs))]
		pos := len(meta)
		for _, x := range bs {
			if x == b {
				break
			}
			pos += int(x.length)
		}
		cut = pos + rng.Intn(3) - 1
		if kind == 5 {
			cut = len(meta) + rng.Intn(len(body)-len(meta))
		}
		if cut < 0 {
			cut = 0
		}
		if cut >= len(body) {
			cut = len(body) - 1
		}
		sc.Cut = cut
		send = body[:cut]
		sc.Note = "body cut"
	case 6: // more body than announced
		send = append(append([]byte{}, body...), randBytes(rng, 1+rng.Int63n(100))...)
		sc.Note = "extra body bytes"
	}
	url := fmt.Sprintf("http://127.0.0.1:%d/data?v=1", srv.port)
	req, _ := nethttp.NewRequest("PUT", url, bytes.NewReader(send))
	req.Header.Add(stshttp.HeaderSourceName, source)
	req.Header.Add(stshttp.HeaderMetaLen, metaLen)
	req.Header.Add(stshttp.HeaderSep, "/")
	hc := &nethttp.Client{Timeout: 4 * time.Second}
	resp, err := hc.Do(req)
	status := 0
	if err == nil {
		status = resp.StatusCode
		io.Copy(io.Discard, resp.Body)
		resp.Body.Close()
	}
	time.Sleep(5 * time.Millisecond)
	gk.mu.Lock()
	got := append([]recPart(nil), gk.recvd...)
	gk.mu.Unlock()
	res.Count("hostile_requests", 1)
	res.Count(fmt.Sprintf("hostile_status_%d", status), 1)
	// no part may have been read successfully with bytes that are not its own
	for _, g := range got {
		var src *hBinnable
		for _, b := range bs {
			if c13Translate(b.name, "/") == g.Name && b.off == g.Beg && b.off+b.length == g.End {
				src = b
			}
		}
		if g.Err != "" {
			continue
		}
		if src == nil {
			viol("malformed-refused", "hostile-unknown-part-accepted", fmt.Sprintf("%s: receiver accepted a part %s %d-%d that the sender never encoded", sc.Note, g.Name, g.Beg, g.End))
			continue
		}
		want := files[src.name][src.off : src.off+src.length]
		if !bytes.Equal(g.Data, want) {
			viol("malformed-refused", "hostile-wrong-bytes-accepted", fmt.Sprintf("%s: part %s %d-%d was read to its end without error but holds other bytes (got %d bytes)", sc.Note, g.Name, g.Beg, g.End, len(g.Data)))
		}
	}
	truncated := kind == 3 || kind == 4 || kind == 5
	allOK := len(got) == len(bs)
	for _, g := range got {
		if g.Err != "" {
			allOK = false
		}
	}
	if status == 200 && truncated && !(kind == 4 && sc.Cut >= len(body)) && !allOK {
		viol("malformed-refused", "truncated-answered-200", fmt.Sprintf("%s at byte %d of %d: answered 200 although only %d of %d parts were read completely", sc.Note, sc.Cut, len(body), countOK(got), len(bs)))
	}
	if status == 200 && (kind == 0 || kind == 2) {
		viol("malformed-refused", "bad-header-length-answered-200", fmt.Sprintf("%s: answered 200", sc.Note))
	}
	res.NonTrivial(fmt.Sprintf("hostile/%d/%s/%d/%d", kind, sc.Note, sc.Cut, len(bs)))
}

func countOK(ps []recPart) int {
	n := 0
	for _, p := range ps {
		if p.Err == "" {
			n++
		}
	}
	return n
}
