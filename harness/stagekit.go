package harness

import (
	"errors"
	"fmt"
	"io"
	"math/rand"
	"os"
	"path/filepath"
	"runtime"
	"sort"
	"strings"
	"sync"
	"time"

	"github.com/arm-doe/sts"
	stslog "github.com/arm-doe/sts/log"
	"github.com/arm-doe/sts/marshal"
	"github.com/arm-doe/sts/stage"
	"github.com/arm-doe/sts/zzverif/vfs"
)

// ---- small shared kit for everything that drives a real stage.Stage

// desc implements sts.Binned (a part descriptor as the receiver sees it)
type desc struct {
	Name    string
	Renamed string
	Prev    string
	Hash    string
	Time    time.Time
	Size    int64
	Beg     int64
	End     int64
	Send    int64
}

func (d *desc) GetName() string          { return d.Name }
func (d *desc) GetRenamed() string       { return d.Renamed }
func (d *desc) GetPrev() string          { return d.Prev }
func (d *desc) GetFileTime() time.Time   { return d.Time }
func (d *desc) GetFileHash() string      { return d.Hash }
func (d *desc) GetFileSize() int64       { return d.Size }
func (d *desc) GetSendSize() int64       { return d.Send }
func (d *desc) GetSlice() (int64, int64) { return d.Beg, d.End }

func (d *desc) partial(source string) *sts.Partial {
	return &sts.Partial{Name: d.Name, Renamed: d.Renamed, Prev: d.Prev, Size: d.Size,
		Time: marshal.NanoTime{Time: d.Time}, Hash: d.Hash, Source: source,
		Parts: []*sts.ByteRange{{Beg: d.Beg, End: d.End}}}
}

// delivered is one Dispatcher.Send event
type delivered struct {
	Path string
	Rel  string
	MD5  string
	Size int64
	At   time.Time
	Seq  int
}

// recDispatcher implements sts.Dispatcher: called synchronously inside finalize
// after every delivery and before waiting successors are released.
type recDispatcher struct {
	mu      sync.Mutex
	final   string
	events  []delivered
	consume bool // move the delivered file away (so that a second delivery is visible)
	seq     *int
	onSend  func(d delivered)
	dead    func() bool
}

func (d *recDispatcher) Send(path string) error {
	if d.dead != nil && d.dead() {
		vfs.Park()
	}
	var b []byte
	fi, err := os.Lstat(path)
	if err == nil && !fi.Mode().IsRegular() {
		err = fmt.Errorf("not a regular file (mode %v)", fi.Mode()) // never read through a link (it may lead to a device)
	}
	if err == nil {
		b, err = os.ReadFile(path)
	}
	ev := delivered{Path: path, At: time.Now()}
	if rel, e := filepath.Rel(d.final, path); e == nil {
		ev.Rel = rel
	}
	if err == nil {
		ev.MD5 = md5hex(b)
		ev.Size = int64(len(b))
	} else {
		ev.MD5 = "unreadable:" + err.Error()
	}
	d.mu.Lock()
	if d.seq != nil {
		*d.seq++
		ev.Seq = *d.seq
	}
	d.events = append(d.events, ev)
	d.mu.Unlock()
	if d.consume && err == nil {
		_ = os.Remove(path)
	}
	if d.onSend != nil {
		d.onSend(ev)
	}
	return nil
}

func (d *recDispatcher) Events() []delivered {
	d.mu.Lock()
	defer d.mu.Unlock()
	return append([]delivered(nil), d.events...)
}

// recvLogger wraps the real receive logger and records what was logged
type recvLogger struct {
	inner *stslog.FileIO
	mu    sync.Mutex
	recs  []loggedRec
	seq   *int
	dead  func() bool
}

type loggedRec struct {
	Name, Renamed, Hash string
	Size                int64
	At                  time.Time
	Seq                 int
}

func (l *recvLogger) Parse(h func(name, renamed, hash string, size int64, t time.Time) bool, after, before time.Time) bool {
	return l.inner.Parse(h, after, before)
}
func (l *recvLogger) Received(f sts.Received) {
	if l.dead != nil && l.dead() {
		vfs.Park()
	}
	l.inner.Received(f)
	l.mu.Lock()
	r := loggedRec{Name: f.GetName(), Renamed: f.GetRenamed(), Hash: f.GetHash(), Size: f.GetSize(), At: time.Now()}
	if l.seq != nil {
		*l.seq++
		r.Seq = *l.seq
	}
	l.recs = append(l.recs, r)
	l.mu.Unlock()
	if l.dead != nil && l.dead() {
		vfs.Park()
	}
}
func (l *recvLogger) WasReceived(name, hash string, after, before time.Time) bool {
	return l.inner.WasReceived(name, hash, after, before)
}
func (l *recvLogger) Recs() []loggedRec {
	l.mu.Lock()
	defer l.mu.Unlock()
	return append([]loggedRec(nil), l.recs...)
}

// recvSide is the receiving side of a world.  Every generation (process
// incarnation) lives under its own directory name <base>/g<N>: on restart the
// tree is renamed, so that anything a goroutine of the dead instance might still
// do addresses paths that no longer exist (and its vfs domain stays registered
// and dead, which parks such goroutines).
type recvSide struct {
	Base                             string
	Gen                              int
	Root, StageDir, FinalDir, LogDir string
	Stage                            *stage.Stage
	Disp                             *recDispatcher
	Log                              *recvLogger
	Dom                              *vfs.Domain
	doms                             []*vfs.Domain
	fmMu                             sync.Mutex
	finalMoves                       []finalMove // every completed rename onto a final name, across instances
	seq                              int
	deadCh                           chan struct{} // closed when the current instance is crashed
}

// serverCall runs fn (receiver-side work of one request) in a handler goroutine
// of its own, as a real server does; if the receiver instance dies meanwhile the
// caller sees a broken connection (died=true) while the handler stays parked.
func serverCall[T any](r *recvSide, fn func() T) (res T, died bool) {
	deadCh := r.deadCh
	select {
	case <-deadCh:
		return res, true
	default:
	}
	ch := make(chan T, 1)
	go func() { ch <- fn() }()
	select {
	case res = <-ch:
		select {
		case <-deadCh:
			return res, true // died while answering: the answer is lost
		default:
		}
		return res, false
	case <-deadCh:
		return res, true
	}
}

func newRecvSide(base string, consume bool) *recvSide {
	r := &recvSide{Base: base}
	r.setDirs()
	_ = os.MkdirAll(r.StageDir, 0o755)
	_ = os.MkdirAll(r.FinalDir, 0o755)
	_ = os.MkdirAll(r.LogDir, 0o755)
	r.boot(consume)
	// As after any server start over an existing stage directory: Recover() also
	// fixes the start of the in-memory cache window.  (Without it a Stage that has
	// not delivered anything yet answers every predecessor look-up by walking the
	// day files from year 0 - ~740 000 opens per 10 s retry - which is a
	// performance problem of its own but makes runs take minutes of real time.)
	r.Stage.Recover()
	return r
}

func (r *recvSide) setDirs() {
	r.Root = filepath.Join(r.Base, fmt.Sprintf("g%d", r.Gen))
	r.StageDir = filepath.Join(r.Root, "stage", "src")
	r.FinalDir = filepath.Join(r.Root, "final", "src")
	r.LogDir = filepath.Join(r.Root, "logs", "src")
}

// finalMove: a file arrived under its final name (seen at the file-system call, so also
// when the instance dies before it tells anybody)
type finalMove struct {
	Rel, MD5 string
	At       time.Time
}

func (r *recvSide) noteFinalMove(ev *vfs.Event, err error) {
	if err != nil || ev.Op != vfs.OpRename || strings.HasSuffix(ev.Path2, ".lck") {
		return
	}
	pre := r.FinalDir + string(os.PathSeparator)
	if !strings.HasPrefix(ev.Path2, pre) {
		return
	}
	fi, e := os.Lstat(ev.Path2)
	if e != nil || !fi.Mode().IsRegular() {
		return
	}
	b, e := os.ReadFile(ev.Path2)
	if e != nil {
		return
	}
	r.fmMu.Lock()
	r.finalMoves = append(r.finalMoves, finalMove{Rel: strings.TrimPrefix(ev.Path2, pre), MD5: md5hex(b), At: time.Now()})
	r.fmMu.Unlock()
}

func (r *recvSide) movesIntoFinal() []finalMove {
	r.fmMu.Lock()
	defer r.fmMu.Unlock()
	return append([]finalMove(nil), r.finalMoves...)
}

// boot creates a Stage instance over the current directories
func (r *recvSide) boot(consume bool) {
	r.Dom = &vfs.Domain{Root: r.Root + string(os.PathSeparator)}
	r.Dom.After = r.noteFinalMove
	r.deadCh = make(chan struct{})
	vfs.Register(r.Dom)
	r.doms = append(r.doms, r.Dom)
	dom := r.Dom
	dead := func() bool { return dom.Dead() }
	r.Disp = &recDispatcher{final: r.FinalDir, consume: consume, seq: &r.seq, dead: dead}
	r.Log = &recvLogger{inner: stslog.NewFileIO(r.LogDir, nil, nil, false), seq: &r.seq, dead: dead}
	r.Stage = stage.New("src", r.StageDir, r.FinalDir, r.Log, r.Disp, nil)
}

// crash parks the instance: every later vfs call, log write and dispatch of this
// instance blocks forever; nothing more reaches the disk through them.
func (r *recvSide) crash() {
	if !r.Dom.Dead() {
		r.Dom.Kill()
		close(r.deadCh)
	}
}

// reboot = new process over the same data: the tree moves to the next
// generation's name and a new Stage is created there (Recover is the caller's job)
func (r *recvSide) reboot(consume bool) {
	r.crash()
	old := r.Root
	r.Gen++
	r.setDirs()
	_ = os.Rename(old, r.Root)
	r.boot(consume)
}

func (r *recvSide) close() {
	for _, d := range r.doms {
		vfs.Unregister(d)
	}
	r.doms = nil
}

func (r *recvSide) restamp() {
	vfs.RestampTree(r.Root, time.Now())
}

// listing returns the decoded partials listing (what a restarted sender learns)
func (r *recvSide) listing() (map[string]*sts.Partial, error) {
	b, err := r.Stage.Scan("1")
	if err != nil {
		return nil, err
	}
	ps, err := stage.ReadCompanions(strings.NewReader(string(b)))
	if err != nil {
		return nil, err
	}
	out := map[string]*sts.Partial{}
	for _, p := range ps {
		out[p.Name] = p
	}
	return out, nil
}

// treeListing lists files under dir (relative names), sorted
func treeListing(dir string) []string {
	var out []string
	_ = filepath.Walk(dir, func(p string, info os.FileInfo, err error) error {
		if err != nil || info.IsDir() {
			return nil
		}
		rel, _ := filepath.Rel(dir, p)
		out = append(out, rel)
		return nil
	})
	sort.Strings(out)
	return out
}

// ---- readers

type chunkyReader struct {
	data []byte
	pos  int
	rng  *rand.Rand
	max  int
	// stop: after this many bytes return endErr (nil endErr = clean io.EOF)
	stop   int
	endErr error
	fed    int
}

var errInjected = errors.New("injected read error")

func (r *chunkyReader) Read(p []byte) (int, error) {
	limit := len(r.data)
	if r.stop >= 0 && r.stop < limit {
		limit = r.stop
	}
	if r.pos >= limit {
		if r.stop >= 0 && r.stop < len(r.data) && r.endErr != nil {
			return 0, r.endErr
		}
		return 0, io.EOF
	}
	n := len(p)
	if r.max > 0 {
		m := 1 + r.rng.Intn(r.max)
		if m < n {
			n = m
		}
	}
	if n > limit-r.pos {
		n = limit - r.pos
	}
	copy(p, r.data[r.pos:r.pos+n])
	r.pos += n
	r.fed += n
	return n, nil
}

// yieldHook returns a vfs Before hook that yields the processor a PRNG-chosen
// number of times: schedule diversity without touching the (virtual) clock.
func yieldHook(seed int64) func(ev *vfs.Event) error {
	var mu sync.Mutex
	r := rand.New(rand.NewSource(seed))
	return func(ev *vfs.Event) error {
		mu.Lock()
		n := r.Intn(4)
		mu.Unlock()
		for i := 0; i < n; i++ {
			runtime.Gosched()
		}
		return nil
	}
}

func randBytes(rng *rand.Rand, n int64) []byte {
	b := make([]byte, n)
	rng.Read(b)
	return b
}

func fmtIv(b, e int64) string { return fmt.Sprintf("[%d,%d)", b, e) }
