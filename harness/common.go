package harness

import (
	"fmt"
	"sync"
	"syscall"
	"time"
	"unsafe"

	stslog "github.com/arm-doe/sts/log"
	"github.com/arm-doe/sts/zzverif/vfs"
)

// memLogger implements sts.Logger; keeps a small ring of recent messages so that
// witnesses can include what the code itself said.
type memLogger struct {
	mu   sync.Mutex
	ring []string
	on   bool
}

func (l *memLogger) add(level string, p []interface{}) {
	if !l.on {
		return
	}
	l.mu.Lock()
	if len(l.ring) > 400 {
		l.ring = l.ring[200:]
	}
	l.ring = append(l.ring, level+" "+fmt.Sprintln(p...))
	l.mu.Unlock()
}
func (l *memLogger) Debug(p ...interface{}) { l.add("D", p) }
func (l *memLogger) Info(p ...interface{})  { l.add("I", p) }
func (l *memLogger) Error(p ...interface{}) { l.add("E", p) }
func (l *memLogger) Recent(n int) []string {
	l.mu.Lock()
	defer l.mu.Unlock()
	if n > len(l.ring) {
		n = len(l.ring)
	}
	return append([]string(nil), l.ring[len(l.ring)-n:]...)
}
func (l *memLogger) Reset() {
	l.mu.Lock()
	l.ring = nil
	l.mu.Unlock()
}

var theLogger = &memLogger{}

func initLogger() {
	stslog.InitExternal(theLogger)
}

func vfsCalls() int64 { return vfs.Calls() }

// lutimes sets the modification time of a symbolic link itself
func lutimes(path string, t time.Time) {
	ts := []syscall.Timespec{syscall.NsecToTimespec(t.UnixNano()), syscall.NsecToTimespec(t.UnixNano())}
	p, err := syscall.BytePtrFromString(path)
	if err != nil {
		return
	}
	const atFdcwd = -100
	const atSymlinkNofollow = 0x100
	_, _, _ = syscall.Syscall6(syscall.SYS_UTIMENSAT, uintptr(atFdcwd&0xffffffffffffffff), uintptr(unsafe.Pointer(p)), uintptr(unsafe.Pointer(&ts[0])), atSymlinkNofollow, 0, 0)
}
