package harness

import (
	"fmt"
	"math/rand"
	"sort"
	"strings"
	"sync"
	"time"

	"github.com/arm-doe/sts"
	"github.com/arm-doe/sts/client"
	"github.com/arm-doe/sts/marshal"
	"github.com/arm-doe/sts/payload"
	"github.com/arm-doe/sts/queue"
)

// C11 (d) - the missing ranges of RESUMED files, computed by the sender's real start-up
// recovery (Broker.recover) from the receiver's partials answer and the cache, then
// chunked by the real queue and packed by the real binnable / Bin.
//
// PRNG worlds: 1-7 cached files, each with one of the receiver-side states
//   - partial of the cached version (0-5 received ranges, adjacent / out of order / whole /
//     overlapping or nested, as left by a retransmission cut at other boundaries),
//   - partial of another version of the name,
//   - no partial,
//   - cached as done,
// and a recovery poll that answers 'not found' or 'failed' for the files recover() asks
// about.  Oracle (reference complement of the received ranges): for every file the
// parts that come out of the packing cover EXACTLY the bytes the receiver does not
// hold of the cached version - the whole file when nothing usable is held - are
// non-empty, disjoint, ascending per file and inside the popped chunks.

type c11rFile struct {
	Name    string     `json:"name"`
	Size    int64      `json:"size"`
	State   string     `json:"state"`
	Held    [][2]int64 `json:"held,omitempty"`
	PollAns string     `json:"poll_answer,omitempty"`
}

type c11rScenario struct {
	Payload int64       `json:"payload_size"`
	Chunk   int64       `json:"chunk_size"`
	Files   []*c11rFile `json:"files"`
}

type memCache struct {
	mu    sync.Mutex
	files map[string]*qFile
}

func (c *memCache) Iterate(f func(sts.Cached) bool) {
	c.mu.Lock()
	var all []*qFile
	for _, v := range c.files { // map order: the order recover() meets the files in varies
		all = append(all, v)
	}
	c.mu.Unlock()
	for _, v := range all {
		if f(v) {
			return
		}
	}
}
func (c *memCache) Get(n string) sts.Cached {
	c.mu.Lock()
	defer c.mu.Unlock()
	if f, ok := c.files[n]; ok {
		return f
	}
	return nil
}
func (c *memCache) Add(sts.Hashed) {}
func (c *memCache) Done(n string, fn func(sts.Cached)) {
	c.mu.Lock()
	defer c.mu.Unlock()
	if f, ok := c.files[n]; ok {
		f.done = true
		if fn != nil {
			fn(f)
		}
	}
}
func (c *memCache) Reset(string)    {}
func (c *memCache) Remove(n string) { c.mu.Lock(); delete(c.files, n); c.mu.Unlock() }
func (c *memCache) Persist() error  { return nil }

type unchangedStore struct{}

func (unchangedStore) Scan(func(sts.File) bool) ([]sts.File, time.Time, error) {
	return nil, time.Now(), nil
}
func (unchangedStore) GetOpener() sts.Open             { return nil }
func (unchangedStore) Remove(sts.File) error           { return nil }
func (unchangedStore) Sync(sts.File) (sts.File, error) { return nil, nil }
func (unchangedStore) IsNotExist(error) bool           { return false }
func (unchangedStore) ShouldIgnore(sts.File) bool      { return false }

type polledAns struct {
	sts.Pollable
	failed bool
}

func (p *polledAns) NotFound() bool { return !p.failed }
func (p *polledAns) Waiting() bool  { return false }
func (p *polledAns) Failed() bool   { return p.failed }
func (p *polledAns) Received() bool { return false }

func runC11Recover(c *Ctx) {
	n := c.N(1500, 60000)
	for i := 0; i < n; i++ {
		idx := 3_000_000 + i
		if !c.Mine(idx) {
			continue
		}
		rng := c.Rng(idx)
		sc := &c11rScenario{}
		c.Guard(idx, sc, func() {
			bubble(c.T, func() { c11RecoverRun(c, idx, rng, sc) })
		})
	}
}

func c11RecoverRun(c *Ctx, idx int, rng *rand.Rand, sc *c11rScenario) {
	res := c.Res
	res.Eval()
	viol := func(clause, fp, detail string) {
		res.Violate(Violation{Clause: clause, Fingerprint: "C11/" + fp, Detail: detail, Scenario: sc, Index: idx})
	}
	psize := int64(20 + rng.Intn(3000))
	chunk := int64(1 + rng.Int63n(psize*2))
	sc.Payload, sc.Chunk = psize, chunk
	cache := &memCache{files: map[string]*qFile{}}
	var partials []*sts.Partial
	want := map[string][]iv{}
	sizeOf := map[string]int64{}
	failedAns := map[string]bool{}
	nfiles := 1 + rng.Intn(7)
	nResumed := 0
	for f := 0; f < nfiles; f++ {
		name := fmt.Sprintf("g%d/f%02d", rng.Intn(3), f)
		size := int64(1 + rng.Intn(6000))
		cf := &qFile{name: name, size: size, time: time.Now().Add(-time.Duration(1+rng.Intn(5000)) * time.Second), hash: fmt.Sprintf("h%02d", f)}
		rf := &c11rFile{Name: name, Size: size}
		sizeOf[name] = size
		held := func() []*sts.ByteRange {
			var out []*sts.ByteRange
			pos := int64(0)
			for k := rng.Intn(6); k > 0 && pos < size; k-- {
				beg := pos
				if rng.Intn(3) != 0 {
					beg = pos + rng.Int63n(size-pos)
				}
				ln := 1 + rng.Int63n(size-beg)
				if rng.Intn(4) == 0 {
					ln = size - beg
				}
				out = append(out, &sts.ByteRange{Beg: beg, End: beg + ln})
				rf.Held = append(rf.Held, [2]int64{beg, beg + ln})
				pos = beg + ln
				if rng.Intn(4) == 0 && beg+ln > 1 {
					// the same bytes arrived again in a differently cut part (a
					// retransmission with other payload boundaries): the companion
					// lists both ranges, overlapping or nested
					ob := beg + rng.Int63n(ln)
					oe := ob + 1 + rng.Int63n(size-ob)
					out = append(out, &sts.ByteRange{Beg: ob, End: oe})
					rf.Held = append(rf.Held, [2]int64{ob, oe})
					if oe > pos {
						pos = oe
					}
				}
			}
			rng.Shuffle(len(out), func(i, j int) { out[i], out[j] = out[j], out[i] }) // companions list parts in arrival order
			return out
		}
		switch r := rng.Intn(10); {
		case r < 6:
			rf.State = "partial-of-cached-version"
			parts := held()
			partials = append(partials, &sts.Partial{Name: name, Hash: cf.hash, Size: size, Time: marshalTime(cf.time), Prev: "", Parts: parts, Source: "src"})
			// reference complement
			sorted := append([]*sts.ByteRange{}, parts...)
			sort.Slice(sorted, func(i, j int) bool { return sorted[i].Beg < sorted[j].Beg })
			pos := int64(0)
			for _, p := range sorted {
				if p.Beg > pos {
					want[name] = append(want[name], iv{pos, p.Beg})
				}
				if p.End > pos {
					pos = p.End
				}
			}
			if pos < size {
				want[name] = append(want[name], iv{pos, size})
			}
			if len(want[name]) == 0 {
				want[name] = []iv{{0, size}} // everything held: recover() polls; the answer is 'not found'/'failed' -> all of it again
			} else {
				nResumed++
			}
		case r < 7:
			rf.State = "partial-of-another-version"
			partials = append(partials, &sts.Partial{Name: name, Hash: "other", Size: size + 1, Time: marshalTime(cf.time), Parts: held(), Source: "src"})
			want[name] = []iv{{0, size}}
		case r < 9:
			rf.State = "no-partial"
			want[name] = []iv{{0, size}}
		default:
			rf.State = "done"
			cf.done = true
			if rng.Intn(2) == 0 {
				partials = append(partials, &sts.Partial{Name: name, Hash: cf.hash, Size: size, Time: marshalTime(cf.time), Parts: held(), Source: "src"})
			}
		}
		if rng.Intn(3) == 0 {
			failedAns[name] = true
			rf.PollAns = "failed"
		}
		cache.files[name] = cf
		sc.Files = append(sc.Files, rf)
	}
	b := &client.Broker{Conf: &client.Conf{
		Name:  "c11r",
		Store: unchangedStore{},
		Cache: cache,
		Recoverer: func() ([]*sts.Partial, error) {
			return partials, nil
		},
		Validator: func(ps []sts.Pollable) ([]sts.Polled, error) {
			var out []sts.Polled
			for _, p := range ps {
				out = append(out, &polledAns{Pollable: p, failed: failedAns[p.GetName()]})
			}
			return out, nil
		},
		PollMaxCount: 1 + rng.Intn(4),
	}}
	send, err := client.ZZRecover(b)
	if err != nil {
		viol("recover", "recover-error", err.Error())
		return
	}
	order := []string{sts.OrderFIFO, sts.OrderAlpha, sts.OrderNone}[rng.Intn(3)]
	tag := &queue.Tag{Name: "t", Order: order, ChunkSize: chunk}
	q := queue.NewTagged([]*queue.Tag{tag}, func(string) string { return "t" }, func(n string) string {
		if i := strings.Index(n, "/"); i > 0 {
			return n[:i]
		}
		return n
	})
	q.Push(send)
	partsOf := map[string][]iv{}
	var cur sts.Binnable
	var bin sts.Payload
	flush := func() {
		if bin == nil {
			return
		}
		for _, part := range bin.GetParts() {
			bb, n := part.GetSlice()
			if n < 1 {
				viol("part-nonempty", "empty-part", fmt.Sprintf("empty part of %s at %d", part.GetName(), bb))
			}
			partsOf[part.GetName()] = append(partsOf[part.GetName()], iv{bb, bb + n})
			res.Count("resumed_parts", 1)
		}
		bin = nil
	}
	for guard := 0; ; guard++ {
		if guard > 200000 {
			viol("packing-terminates", "packing-livelock", "binning loop did not terminate")
			return
		}
		if cur == nil {
			s := q.Pop()
			if s == nil {
				break
			}
			if _, ln := s.GetSlice(); ln < 1 {
				continue // order-only entries (done / delivered files) carry no bytes
			}
			cur = client.ZZNewBinnable(s, "t", order == sts.OrderNone)
		}
		if bin == nil {
			bin = payload.NewBin(psize, nil, nil)
		}
		added := bin.Add(cur)
		if !added || cur.IsAllocated() {
			cur = nil
		}
		if bin.IsFull() {
			flush()
		}
	}
	flush()
	for name, w := range want {
		got := partsOf[name]
		asc := sort.SliceIsSorted(got, func(i, j int) bool { return got[i].b < got[j].b })
		sort.Slice(got, func(i, j int) bool { return got[i].b < got[j].b })
		var flat []iv
		for _, g := range got {
			if len(flat) > 0 && flat[len(flat)-1].e == g.b {
				flat[len(flat)-1].e = g.e
			} else {
				if len(flat) > 0 && g.b < flat[len(flat)-1].e {
					viol("parts-disjoint", "resumed-overlap", fmt.Sprintf("%s: parts overlap at %d: %v", name, g.b, got))
				}
				flat = append(flat, g)
			}
		}
		if fmt.Sprint(flat) != fmt.Sprint(w) {
			viol("exact-cover-of-missing-ranges", "resumed-cover", fmt.Sprintf("%s (size %d): after start-up recovery the parts sent cover %v, the receiver lacks exactly %v", name, sizeOf[name], flat, w))
		} else if !asc {
			viol("parts-ascending", "resumed-not-ascending", fmt.Sprintf("%s: parts of one file were packed out of order: %v", name, partsOf[name]))
		}
	}
	for name := range partsOf {
		if _, ok := want[name]; !ok {
			viol("nothing-sent-for-done-files", "resumed-sent-done-file", fmt.Sprintf("%s is cached as done, yet parts %v were packed", name, partsOf[name]))
		}
	}
	res.Count("recover_worlds", 1)
	res.Count("resumed_files_with_gaps", int64(nResumed))
	if nResumed >= 2 {
		res.Count("worlds_with_two_or_more_resumed_files", 1)
	}
	res.NonTrivial(fmt.Sprintf("c11r/%d/%d/%v", psize, chunk, describeC11r(sc)))
	res.Sample(sc)
}

func marshalTime(t time.Time) marshal.NanoTime { return marshal.NanoTime{Time: t} }

func describeC11r(sc *c11rScenario) string {
	var sb strings.Builder
	for _, f := range sc.Files {
		fmt.Fprintf(&sb, "%s:%d:%s:%v:%s;", f.Name, f.Size, f.State, f.Held, f.PollAns)
	}
	return sb.String()
}
