package harness

import (
	"fmt"
	"math/rand"
	"os"
	"path/filepath"
	"testing/synctest"
	"time"

	"github.com/arm-doe/sts"
)

// C02 (receiver level) - "The receiver answers positively only for content it
// durably holds validated."
//
// Version histories of one or two names against a real Stage under a virtual
// clock: intact versions (validated, delivered), damaged versions (received
// completely, fail validation), half-received versions, receiver restarts,
// virtual ageing, and requests about OTHER files that make the receiver read
// its log further back (older poll times, older file times).  After every step
// the status of each name is polled with several 'sent' times.
//
// Oracle (reference model of what the receiver itself has concluded): while the
// most recently COMPLETED version of a name is one that failed validation - and
// the receiver has not been restarted since, so it cannot have forgotten - the
// answer for that name must not be 'passed' or 'waiting'.  (A positive answer
// for a name whose newest version is only partly received is what the name-only
// poll means by design and is not judged here.)

type c02sStep struct {
	Op    string `json:"op"`
	Name  int    `json:"name,omitempty"`
	Ver   int    `json:"version,omitempty"`
	Hours int    `json:"hours,omitempty"`
	Note  string `json:"note,omitempty"`
}

type c02sScenario struct {
	Steps []c02sStep `json:"steps"`
}

func runC02Stage(c *Ctx, prop string) {
	n := c.N(400, 8000)
	for i := 0; i < n; i++ {
		idx := 4_000_000 + i
		if !c.Mine(idx) {
			continue
		}
		rng := c.Rng(idx)
		sc := &c02sScenario{}
		dir := filepath.Join(c.Work, fmt.Sprintf("c02s-%d", idx))
		c.Guard(idx, sc, func() {
			bubble(c.T, func() { c02StageRun(c, prop, idx, rng, sc, dir) })
		})
		os.RemoveAll(dir)
	}
}

func c02StageRun(c *Ctx, prop string, idx int, rng *rand.Rand, sc *c02sScenario, dir string) {
	res := c.Res
	res.Eval()
	viol := func(clause, fp, detail string) {
		res.Violate(Violation{Clause: clause, Fingerprint: prop + "/" + fp, Detail: detail, Scenario: sc, Index: idx})
	}
	time.Sleep(time.Duration(rng.Intn(86400)) * time.Second)
	rs := newRecvSide(dir, rng.Intn(2) == 0)
	defer rs.close()
	names := []string{"d/x.dat", "d/y.dat"}[:1+rng.Intn(2)]
	type verdict struct {
		ver    int
		failed bool
		hash   string
	}
	last := map[int]*verdict{} // latest completed version per name, as the running instance knows it
	nver := map[int]int{}
	ftimeOf := func(ageH float64) time.Time { return time.Now().Add(-time.Duration(ageH * float64(time.Hour))) }
	sendVersion := func(ni int, damaged, partial bool) {
		nver[ni]++
		size := int64(30 + rng.Intn(900))
		data := randBytes(rng, size)
		hash := md5hex(data)
		fed := data
		if damaged {
			fed = append([]byte{}, data...)
			fed[rng.Intn(len(fed))] ^= 0x5a
		}
		parts := 1 + rng.Intn(3)
		ft := ftimeOf([]float64{0.1, 2, 30, 80}[rng.Intn(4)])
		step := size / int64(parts)
		if step == 0 {
			parts, step = 1, size
		}
		for k := 0; k < parts; k++ {
			b, e := int64(k)*step, int64(k+1)*step
			if k == parts-1 {
				e = size
			}
			if partial && k == parts-1 {
				break // the last part never arrives
			}
			d := &desc{Name: names[ni], Hash: hash, Size: size, Time: ft, Beg: b, End: e, Send: size}
			rs.Stage.Prepare([]sts.Binned{d})
			_ = rs.Stage.Receive(d.partial("src"), &chunkyReader{data: fed[b:e], rng: rng, stop: -1})
		}
		rs.restamp()
		synctest.Wait()
		time.Sleep(3 * time.Second) // validation, log, move
		synctest.Wait()
		if !partial {
			last[ni] = &verdict{ver: nver[ni], failed: damaged, hash: hash}
		}
	}
	pollAll := func(after string) {
		for ni, name := range names {
			for _, ageH := range []float64{0, 1, 26, 100} {
				st := rs.Stage.GetFileStatus(name, ftimeOf(ageH))
				res.Count(fmt.Sprintf("poll_answer_%d", st), 1)
				if v := last[ni]; v != nil && v.failed && (st == sts.ConfirmPassed || st == sts.ConfirmWaiting) {
					viol("positive-answer-needs-validated-copy", "positive-answer-after-failed-validation",
						fmt.Sprintf("after step %q: the most recently completed version of %s (version %d, md5 %s) failed validation in this receiver instance, yet the poll (sent time %.0f h ago) answers %d", after, name, v.ver, v.hash, ageH, st))
					return
				}
			}
		}
	}
	nsteps := 4 + rng.Intn(9)
	sawFailed := false
	// half of the histories follow a template with PRNG parameters - an old delivery
	// that the running instance no longer remembers, then a damaged new version,
	// then something that makes the receiver read its log further back - the other
	// half are free sequences of the same steps
	var script []int
	if rng.Intn(2) == 0 {
		script = []int{0, 8, 7, 3, 9 + rng.Intn(3)} // intact, long sleep, restart, damaged, extend
		if rng.Intn(2) == 0 {
			script = []int{0, 8, 3, 9 + rng.Intn(3)} // without restart: only ageing (possible when the cache was built late)
		}
		if rng.Intn(3) == 0 {
			script = append(script, 9+rng.Intn(3), 6)
		}
		nsteps = len(script)
	}
	for s := 0; s < nsteps; s++ {
		ni := rng.Intn(len(names))
		if script != nil {
			ni = 0
		}
		var st c02sStep
		r := rng.Intn(12)
		if script != nil {
			r = script[s]
		}
		switch {
		case r < 3:
			st = c02sStep{Op: "version-intact", Name: ni}
			sendVersion(ni, false, false)
		case r < 6:
			st = c02sStep{Op: "version-damaged", Name: ni}
			sendVersion(ni, true, false)
			sawFailed = true
		case r < 7:
			st = c02sStep{Op: "version-half-received", Name: ni}
			sendVersion(ni, false, true)
		case r < 8:
			st = c02sStep{Op: "restart"}
			synctest.Wait()
			rs.reboot(rs.Disp.consume)
			rs.Stage.Recover()
			last = map[int]*verdict{} // a new instance knows only the log and the staging area
		case r < 9:
			h := []int{1, 25, 49}[rng.Intn(3)]
			if script != nil {
				h = []int{30, 49, 100}[rng.Intn(3)]
			}
			st = c02sStep{Op: "sleep", Hours: h}
			time.Sleep(time.Duration(h) * time.Hour)
			rs.restamp()
			if h >= 24 {
				last = map[int]*verdict{} // in-memory records may legitimately age out
			}
		case r < 10:
			// a poll about another file, sent long ago: the receiver reads its log further back
			h := []int{30, 60, 200}[rng.Intn(3)]
			st = c02sStep{Op: "poll-other-old", Hours: h}
			_ = rs.Stage.GetFileStatus("other/never-sent.dat", ftimeOf(float64(h)))
		case r < 11:
			// 'which of these parts do you have' for another, old file
			h := []int{30, 60, 200}[rng.Intn(3)]
			st = c02sStep{Op: "ask-other-old", Hours: h}
			d := &desc{Name: "other/ask.dat", Hash: md5hex([]byte("q")), Size: 1, Time: ftimeOf(float64(h)), Beg: 0, End: 1, Send: 1}
			_ = rs.Stage.Received([]sts.Binned{d})
		default:
			// another, old file is delivered
			h := []int{30, 60, 200}[rng.Intn(3)]
			st = c02sStep{Op: "deliver-other-old", Hours: h}
			od := randBytes(rng, 20)
			d := &desc{Name: fmt.Sprintf("other/o%d.dat", s), Hash: md5hex(od), Size: 20, Time: ftimeOf(float64(h)), Beg: 0, End: 20, Send: 20}
			rs.Stage.Prepare([]sts.Binned{d})
			_ = rs.Stage.Receive(d.partial("src"), &chunkyReader{data: od, rng: rng, stop: -1})
			synctest.Wait()
			time.Sleep(3 * time.Second)
		}
		sc.Steps = append(sc.Steps, st)
		synctest.Wait()
		pollAll(fmt.Sprintf("%d:%s", s, st.Op))
	}
	if sawFailed {
		res.NonTrivial(fmt.Sprintf("c02s/%v", sc.Steps))
	}
	res.Count("stage_level_histories", 1)
	res.Sample(sc)
}
