package harness

import (
	"encoding/json"
	"fmt"
	"math/rand"
	"os"
	"path/filepath"
	"strings"
	"time"

	"github.com/arm-doe/sts"
)

// Property runners built on the generic end-to-end scenario (e2e.go).  Each
// runner has its own generator emphasis; all oracles run on every outcome, but
// a check only reports violations of its own property.

func init() {
	register("C03", func(c *Ctx) { runE2E(c, "C03") })
	register("C01", func(c *Ctx) {
		runE2E(c, "C01")
		runC01Race(c)
		runC02Stage(c, "C01")
		runC01XFS(c, "C01")
		runC01Overlap(c)
	})
	register("C02", func(c *Ctx) { runE2E(c, "C02"); runC02Stage(c, "C02"); runC01XFS(c, "C02") })
	register("C05", func(c *Ctx) { runE2E(c, "C05"); runC05Stage(c, "C05"); runC05Cache(c) })
	register("C08", func(c *Ctx) { runE2E(c, "C08"); runC08HTTP(c) })
	register("C06", func(c *Ctx) { runCrashEnum(c, "C06"); runVersionCrash(c, "C06"); runC05Stage(c, "C06") })
	register("C07", func(c *Ctx) { runCrashEnum(c, "C07") })
}

var dataFaults = []string{fRefuse, fUnavailable, fFailPart, fCutBefore, fCutMid, fLostAnswer}

func genSpec(rng *rand.Rand, prop string, i int) *e2eSpec {
	conf := defaultConf(rng)
	sp := &e2eSpec{Conf: conf}
	nf := 1 + rng.Intn(10)
	if rng.Intn(8) == 0 {
		nf = 12 + rng.Intn(14)
	}
	sp.Files = genFiles(rng, nf, 3*conf.PayloadSize)
	if rng.Intn(3) == 0 {
		conf.Tags[0].Order = []string{sts.OrderLIFO, sts.OrderAlpha, sts.OrderNone}[rng.Intn(3)]
	}
	if rng.Intn(4) == 0 {
		conf.Rename = true
	}
	if rng.Intn(5) == 0 {
		conf.Gzip = 1 + rng.Intn(9)
	}
	switch rng.Intn(3) {
	case 0:
		conf.Tags[0].Delete = true
	case 1:
		conf.Tags[0].Delete = true
		conf.Tags[0].DeleteDelay = time.Duration(1+rng.Intn(7200)) * time.Second
	}
	sp.Downtime = 5 + rng.Intn(120)
	nfaults := rng.Intn(5)
	addFault := func(kind string) {
		f := fault{Kind: kind, Nth: 1 + rng.Intn(6), K: rng.Intn(4)}
		switch rng.Intn(6) {
		case 0:
			f.Repeat = 10
		case 1:
			f.Repeat = 2 + rng.Intn(4)
		}
		sp.Faults = append(sp.Faults, f)
	}
	switch prop {
	case "C03":
		for k := 0; k < nfaults; k++ {
			all := append(append([]string{}, dataFaults...), fPollFail, fPollLost, fRecoverFail, fPartialsErr, fCorrupt)
			addFault(all[rng.Intn(len(all))])
		}
		if rng.Intn(12) == 0 { // never gives up: a long outage
			sp.Faults = append(sp.Faults, fault{Kind: dataFaults[rng.Intn(len(dataFaults))], Nth: 1 + rng.Intn(3), K: rng.Intn(2), Repeat: []int{100, 1000}[rng.Intn(2)]})
		}
		if rng.Intn(3) == 0 {
			sp.SenderCrashAt = append(sp.SenderCrashAt, 5+rng.Intn(120))
		}
		if rng.Intn(3) == 0 {
			sp.RecvCrashAt = append(sp.RecvCrashAt, 1+rng.Intn(60))
		}
	case "C01":
		for k := 0; k < 1+rng.Intn(3); k++ {
			addFault([]string{fCorrupt, fCorrupt, fCutMid, fLostAnswer, fFailPart}[rng.Intn(5)])
		}
		for k := 0; k < rng.Intn(3); k++ {
			sp.Mutations = append(sp.Mutations, mutation{AtAction: 3 + rng.Intn(80), File: rng.Intn(nf), Kind: []string{"rewrite", "append", "replace", "inplace", "stage-overwrite"}[rng.Intn(5)]})
		}
		if rng.Intn(4) == 0 {
			sp.SenderCrashAt = append(sp.SenderCrashAt, 5+rng.Intn(120))
		}
		if rng.Intn(4) == 0 {
			sp.RecvCrashAt = append(sp.RecvCrashAt, 1+rng.Intn(60))
		}
	case "C02":
		conf.Tags[0].Delete = rng.Intn(4) != 0
		if rng.Intn(3) == 0 {
			conf.Tags[0].DeleteDelay = time.Duration(1+rng.Intn(3600)) * time.Second
		} else {
			conf.Tags[0].DeleteDelay = 0
		}
		for k := 0; k < rng.Intn(4); k++ {
			addFault([]string{fPollFail, fPollLost, fLostAnswer, fCorrupt, fFailPart, fRefuse}[rng.Intn(6)])
		}
		for k := 0; k < rng.Intn(4); k++ {
			sp.Mutations = append(sp.Mutations, mutation{AtAction: 3 + rng.Intn(150), File: rng.Intn(nf), Kind: []string{"rewrite", "append", "replace", "touch", "rewrite-same-second"}[rng.Intn(5)]})
		}
		if rng.Intn(2) == 0 {
			sp.SenderCrashAt = append(sp.SenderCrashAt, 3+rng.Intn(150))
			if rng.Intn(3) == 0 {
				sp.SenderCrashAt = append(sp.SenderCrashAt, 160+rng.Intn(100))
			}
		}
		if rng.Intn(6) == 0 {
			sp.RecvCrashAt = append(sp.RecvCrashAt, 1+rng.Intn(60))
		}
		if rng.Intn(4) == 0 {
			// a growing file: several payloads, appended to again and again while it is
			// queued / in flight; the receiver knows earlier versions of the name
			if len(sp.Files) > 2 {
				sp.Files = sp.Files[:1+rng.Intn(2)]
			}
			sp.Files[0].Size = 4*conf.PayloadSize + int64(rng.Intn(500))
			conf.Tags[0].Chunk = conf.PayloadSize/2 + 1
			conf.Threads = 1 + rng.Intn(2)
			conf.Tags[0].Delete = true
			conf.Tags[0].DeleteDelay = 0
			sp.Mutations = nil
			at := 8 + rng.Intn(20)
			for k := 0; k < 3+rng.Intn(3); k++ {
				sp.Mutations = append(sp.Mutations, mutation{AtAction: at, File: 0, Kind: "append"})
				at += 6 + rng.Intn(25)
			}
			sp.SenderCrashAt, sp.RecvCrashAt = nil, nil
		}
	case "C05":
		sp.Consume = rng.Intn(2) == 0
		for k := 0; k < 1+rng.Intn(4); k++ {
			addFault([]string{fLostAnswer, fLostAnswer, fPollLost, fPollFail, fCutMid, fFailPart}[rng.Intn(6)])
		}
		if rng.Intn(3) == 0 {
			conf.PollAttempts = 1 + rng.Intn(2) // polling give-ups -> whole-file resend
		}
		if rng.Intn(3) == 0 {
			sp.SenderCrashAt = append(sp.SenderCrashAt, 5+rng.Intn(150))
		}
		if rng.Intn(4) == 0 {
			sp.RecvCrashAt = append(sp.RecvCrashAt, 1+rng.Intn(80))
		}
	case "C08":
		// one failure per scenario at an enumerated (request, part) position, optionally
		// with the recovery request failing 0-3 times first
		kinds := []string{fFailPart, fCutBefore, fCutMid, fLostAnswer, fRefuse, fUnavailable}
		sp.Faults = append(sp.Faults, fault{Kind: kinds[i%len(kinds)], Nth: 1 + (i/len(kinds))%5, K: (i / (len(kinds) * 5)) % 6})
		if r := rng.Intn(4); r > 0 {
			sp.Faults = append(sp.Faults, fault{Kind: fRecoverFail, Nth: 1, Repeat: r})
		}
		if rng.Intn(4) == 0 {
			sp.Faults = append(sp.Faults, fault{Kind: kinds[rng.Intn(len(kinds))], Nth: 2 + rng.Intn(6), K: rng.Intn(4)})
		}
		conf.Tags[0].Chunk = int64(20 + rng.Intn(int(conf.PayloadSize)))
		if rng.Intn(3) == 0 {
			// payloads of many small parts, and source files that change while the
			// failed request is in flight (the send loop drops changed files from the
			// payload it is about to retry)
			sp.Files = genFiles(rng, 6+rng.Intn(8), conf.PayloadSize/4+1)
			for k := 0; k < 2+rng.Intn(4); k++ {
				sp.Mutations = append(sp.Mutations, mutation{AtAction: 4 + rng.Intn(60), File: rng.Intn(len(sp.Files)), Kind: []string{"touch", "rewrite", "append"}[rng.Intn(3)]})
			}
		}
	}
	return sp
}

func runE2E(c *Ctx, prop string) {
	n := map[string][2]int{"C03": {300, 5000}, "C01": {300, 6000}, "C02": {400, 8000}, "C05": {300, 6000}, "C08": {480, 12000}}[prop]
	total := c.N(n[0], n[1])
	for i := 0; i < total; i++ {
		if !c.Mine(i) {
			continue
		}
		rng := c.Rng(i)
		sp := genSpec(rng, prop, i)
		dir := filepath.Join(c.Work, fmt.Sprintf("e2e-%d", i))
		c.Guard(i, sp, func() {
			bubble(c.T, func() { e2eOne(c, prop, i, rng.Int63(), sp, dir) })
		})
		os.RemoveAll(dir)
	}
}

func e2eOne(c *Ctx, prop string, idx int, seed int64, sp *e2eSpec, dir string) {
	res := c.Res
	res.Eval()
	o := e2eRun(c, seed, sp, dir)
	defer o.w.close()
	v := func(p, clause, fp, detail string) {
		if p != prop {
			if !accepts[prop][p] || (sp.OwnOraclesOnly && p != "C03") {
				res.Count("other_property_violations_seen_"+p, 1)
				return
			}
			// the crash-consistency checks own every consequence of the crash they inject
			fp = p + ":" + fp
			p = prop
		}
		s := *sp
		s.Events = tailEvents(o.events, 150)
		res.Violate(Violation{Clause: clause, Fingerprint: p + "/" + fp, Detail: detail, Scenario: &s, Index: idx})
	}
	dumpOutcome(o, idx)
	oracleIntegrity(o, v)
	oracleRelease(o, v)
	oraclePollTiming(o, v)
	oracleSentLog(o, v)
	oracleProgress(o, v)
	oracleOnce(o, v)
	oracleLedger(o, v)
	oracleTiling(o, v)
	oracleCrashImage(o, v)
	oracleNoDuplicateData(o, v)
	oracleResumedPrev(o, v)
	for cls, n := range o.imageClasses {
		res.Count("crash_image_class_"+cls, int64(n))
	}
	res.Count("crash_images_taken", int64(o.crashImages))

	w := o.w
	w.fmu.Lock()
	fired := len(w.fired)
	w.fmu.Unlock()
	res.Count("requests_data", int64(countReq(o, "data")))
	res.Count("requests_poll", int64(countReq(o, "poll")))
	res.Count("requests_recovery", int64(countReq(o, "recovery")))
	res.Count("faults_fired", int64(fired))
	res.Count("sender_crashes", int64(o.senderCrash))
	res.Count("receiver_crashes", int64(o.recvCrash))
	res.Count("mutations_applied", int64(o.mutationsHit))
	res.Count("deliveries", int64(len(o.delivered)))
	res.Count("source_removes_observed", int64(len(o.removes)))
	res.Count("cache_done_observed", int64(len(o.dones)))
	res.Count("virtual_seconds", int64(w.vt()/time.Second))
	res.Count("delivered_files_with_duplicate_debris_in_staging", int64(o.debris))
	if !o.terminated {
		res.Count("runs_not_terminated", 1)
	}
	// non-trivial rule per property
	key := fmt.Sprintf("%d/%d/%v/%v/%v/%d/%d", len(sp.Files), sp.Conf.Threads, sp.Faults, sp.SenderCrashAt, sp.RecvCrashAt, len(sp.Mutations), sp.Conf.PayloadSize)
	nt := false
	switch prop {
	case "C03":
		nt = fired > 0 || o.senderCrash+o.recvCrash > 0
	case "C01":
		nt = (fired > 0 || o.mutationsHit > 0) && len(o.delivered) > 0
	case "C02":
		nt = len(o.removes)+len(o.dones) > 0
	case "C05":
		nt = fired > 0 || o.senderCrash+o.recvCrash > 0
	case "C08":
		nt = fired > 0 && countReq(o, "data") > 1
	case "C06":
		nt = o.recvCrash > 0
		key = fmt.Sprintf("%s/%v/%d", key, sp.RecvCrashAt, len(o.imageClasses))
		for _, e := range o.events {
			if e.Kind == "recv_crash_point" {
				res.Count("crash_op_"+strings.SplitN(e.S, " ", 2)[0], 1)
				res.NonTrivial("point/" + e.S)
			}
		}
	case "C07":
		nt = o.senderCrash > 0
		key = fmt.Sprintf("%s/%v", key, sp.SenderCrashAt)
	}
	if nt {
		res.NonTrivial(key)
	}
	res.Sample(map[string]any{"files": len(sp.Files), "threads": sp.Conf.Threads, "payload": sp.Conf.PayloadSize, "chunk": sp.Conf.Tags[0].Chunk,
		"faults": sp.Faults, "faults_fired": w.fired, "sender_crash_at": sp.SenderCrashAt, "recv_crash_at": sp.RecvCrashAt, "mutations": sp.Mutations,
		"data_requests": countReq(o, "data"), "polls": countReq(o, "poll"), "deliveries": len(o.delivered), "virtual_s": int64(w.vt() / time.Second)})
}

// which other properties' oracles a crash-enumeration check reports as its own
var accepts = map[string]map[string]bool{
	"C06": {"C01": true, "C03": true, "C05": true},
	"C07": {"C02": true, "C03": true, "C05": true, "C08": true},
}

// runCrashEnum: fault enumeration.  For each scenario a recording-only reference
// run counts the crash points (receiver: mutating file-system operations; sender:
// boundary actions); then one run per chosen index crashes exactly there.
func runCrashEnum(c *Ctx, prop string) {
	nScen := c.N(6, 40)
	nShapes := 6
	if prop == "C07" {
		nScen, nShapes = c.N(8, 48), 8
	}
	capK := c.N(170, 100000)
	idx := 0
	for sidx := 0; sidx < nScen; sidx++ {
		if only := os.Getenv("VERIF_SCEN"); only != "" && only != fmt.Sprint(sidx) {
			continue
		}
		srng := rand.New(rand.NewSource(c.Seed*7919 + int64(sidx)))
		sp0 := genSpec(srng, "crash-base", sidx)
		sp0.Faults, sp0.Mutations, sp0.SenderCrashAt, sp0.RecvCrashAt = nil, nil, nil, nil
		sp0.Conf.Tags[0].DeleteDelay = 0
		// scenario shapes: single small file; multi-part; chain in one payload; renamed; deletion
		switch sidx % nShapes {
		case 7:
			// a file that is already cached gets new content while the sender runs: the
			// scan that picks it up finds no new names; the new version is partly sent
			// at many crash points (what the restarted sender believes comes from the
			// cache file the previous instance wrote)
			sp0.Files = nil
			for k := 0; k < 3; k++ {
				sp0.Files = append(sp0.Files, wsFile{Name: fmt.Sprintf("a.%03d.dat", k), Size: 2*sp0.Conf.PayloadSize + int64(50+srng.Intn(400))})
			}
			sp0.Mutations = []mutation{{AtAction: 6 + srng.Intn(25), File: srng.Intn(3), Kind: []string{"append", "rewrite", "replace"}[srng.Intn(3)]}}
			// ... and once more when everything has been confirmed and the sender is idle:
			// the scan that picks that version up is the only thing that touches the cache
			sp0.QuietMutations = []mutation{{File: srng.Intn(3), Kind: []string{"append", "rewrite", "replace"}[srng.Intn(3)]}}
			sp0.Conf.ScanDelay = time.Duration(3+srng.Intn(8)) * time.Second
			sp0.Conf.Tags[0].Delete = false
			// two versions of a name are in play here: what the release / ledger oracles
			// of C02 and C08 say about that belongs to those checks (and their known
			// findings), not to the crash enumeration
			sp0.OwnOraclesOnly = true
		case 6:
			// stale cache at restart: one file over several payloads (partly received
			// at most crash points) and a dozen small ones that disappear from the
			// outgoing directory while the sender is down
			sp0.Files = []wsFile{{Name: "a.000.dat", Size: 4*sp0.Conf.PayloadSize + 33}}
			for k := 1; k <= 12; k++ {
				sp0.Files = append(sp0.Files, wsFile{Name: fmt.Sprintf("gone.%03d.dat", k), Size: int64(10 + srng.Intn(80))})
				sp0.VanishAtCrash = append(sp0.VanishAtCrash, k)
			}
			sp0.Conf.Tags[0].Order = sts.OrderFIFO
			sp0.Conf.Tags[0].Delete = false
			sp0.Conf.Threads = 1
		case 0:
			sp0.Files = []wsFile{{Name: "a.000.dat", Size: 300}}
		case 1:
			sp0.Files = []wsFile{{Name: "a.000.dat", Size: 3*sp0.Conf.PayloadSize + 17}}
		case 2:
			sp0.Files = genFiles(srng, 4, sp0.Conf.PayloadSize/3+1)
			if prop == "C07" {
				// the first payload is damaged in transit: its files fail validation at the
				// receiver; a sender that dies after sending them and before learning that
				// is told 'failed' by its start-up poll and resumes them (with the
				// predecessor they had announced)
				sp0.Files = nil
				for k := 0; k < 4; k++ { // one group: each file announces the one before it
					sp0.Files = append(sp0.Files, wsFile{Name: fmt.Sprintf("a.%03d.dat", k), Size: 1 + srng.Int63n(sp0.Conf.PayloadSize/3+1)})
				}
				sp0.Faults = []fault{{Kind: fCorrupt, Nth: 1, K: 1 + srng.Intn(2)}}
				sp0.Conf.Tags[0].Order = sts.OrderFIFO
				sp0.Conf.Threads = 1
			}
		case 3:
			sp0.Conf.Rename = true
		case 4:
			sp0.Conf.Tags[0].Delete = true
		case 5:
			// a name that is delivered twice: the second version's receive / validate /
			// log / move steps are crash points while the first version sits in the
			// final directory
			sp0.Files = genFiles(srng, 2, sp0.Conf.PayloadSize)
			sp0.Conf.Tags[0].Delete = false
			sp0.Conf.Tags[0].Order = sts.OrderNone
			sp0.Conf.ScanDelay = 5 * time.Second
			sp0.QuietMutations = []mutation{{File: 0, Kind: "replace"}}
			// the first delivery lies more than a day back: known to the restarted
			// receiver only if it looks far enough into its log
			sp0.QuietGapHours = 60
			sp0.Conf.ScanDelay = 10 * time.Minute
			if prop != "C06" {
				sp0.QuietMutations = nil
			}
		}
		if prop == "C07" && srng.Intn(2) == 0 && len(sp0.Faults) == 0 {
			// make sure payloads are cut mid-way so that partial receptions exist at the crash
			sp0.Faults = []fault{{Kind: fCutMid, Nth: 1 + srng.Intn(3), K: srng.Intn(2)}}
		}
		seed := srng.Int63()
		// reference run (every child, uncounted)
		nPoints := 0
		kFirst := 0
		{
			dir := filepath.Join(c.Work, fmt.Sprintf("enum-ref-%d", sidx))
			sp := *sp0
			c.Guard(idx, &sp, func() {
				bubble(c.T, func() {
					o := e2eRun(c, seed, &sp, dir)
					if prop == "C06" {
						nPoints = o.recvOps
						kFirst = o.recvOpsQuiet // a second act: its steps are the crash points of interest (the first act is shape 2)
					} else {
						nPoints = o.actions
					}
					o.w.close()
				})
			})
			os.RemoveAll(dir)
		}
		if nPoints == 0 {
			nPoints = 40
		}
		step := 1
		if nPoints-kFirst > capK {
			step = (nPoints - kFirst + capK - 1) / capK
		}
		if os.Getenv("VERIF_ENUM_DEBUG") != "" {
			fmt.Fprintf(os.Stderr, "ENUMDEBUG prop=%s sidx=%d shape=%d nPoints=%d kFirst=%d step=%d\n", prop, sidx, sidx%nShapes, nPoints, kFirst, step)
		}
		for k := kFirst + 1 + (sidx % step); k <= nPoints+2; k += step {
			if c.Mine(idx) {
				sp := *sp0
				if prop == "C06" {
					sp.RecvCrashAt = []int{k}
					if c.Thorough() && k%5 == 0 {
						sp.RecvCrashAt = append(sp.RecvCrashAt, k+1+(k%17)) // a second crash, possibly during recovery
					}
				} else {
					sp.SenderCrashAt = []int{k}
					if c.Thorough() && k%5 == 0 {
						sp.SenderCrashAt = append(sp.SenderCrashAt, k+2+(k%13))
					}
				}
				sp.Note = fmt.Sprintf("crash point %d of %d (reference run)", k, nPoints)
				dir := filepath.Join(c.Work, fmt.Sprintf("enum-%d", idx))
				// the same PRNG stream as the reference run: up to the crash the history
				// is the one whose steps were counted, so crash point k is step k
				rs := seed
				if prop == "C07" && k%2 == 1 {
					// (sender side: every other run takes a stream of its own - other sizes
					// and latencies - so that windows which the one counted history does not
					// contain are reached as well)
					rs = seed + int64(k)*31
				}
				c.Guard(idx, &sp, func() {
					bubble(c.T, func() { e2eOne(c, prop, idx, rs, &sp, dir) })
				})
				os.RemoveAll(dir)
			}
			idx++
		}
	}
}

func countReq(o *e2eOutcome, class string) int {
	n := 0
	for _, r := range o.reqs {
		if r.Class == class {
			n++
		}
	}
	return n
}

func tailEvents(ev []wEvent, n int) []wEvent {
	if len(ev) > n {
		return ev[len(ev)-n:]
	}
	return ev
}

// dumpOutcome writes everything observed in one run to $VERIF_DUMP (diagnosis of a witness)
func dumpOutcome(o *e2eOutcome, idx int) {
	dp := os.Getenv("VERIF_DUMP")
	if dp == "" {
		return
	}
	b, _ := json.MarshalIndent(map[string]any{"events": o.events, "final": o.final, "staged": o.staged, "sources": o.sources, "cache": o.cache,
		"delivered": o.delivered, "logged": o.logged, "requests": o.reqs, "final_tree": treeListing(o.w.recv.FinalDir)}, "", " ")
	if strings.Contains(dp, "%d") {
		dp = fmt.Sprintf(dp, idx)
	}
	_ = os.WriteFile(dp, b, 0o644)
}
