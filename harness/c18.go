package harness

import (
	"fmt"
	"math/rand"
	"os"
	"path/filepath"
	"sort"
	"strings"
	"sync"
	"time"

	stslog "github.com/arm-doe/sts/log"
)

// C18 — transfer logs answer "was this file sent/received" exactly.
//
// Monitor: real log.FileIO inside a synctest bubble (the bubble clock decides
// the YYYYMM/DD file, so day and month boundaries are crossed for real).  The
// reference is the list of records written.

func init() { register("C18", runC18) }

type c18Rec struct {
	Day     string `json:"day"` // YYYYMMDD (local zone of the scenario) of the write
	Name    string `json:"name"`
	Renamed string `json:"renamed"`
	Hash    string `json:"hash"`
	Size    int64  `json:"size"`
	Unix    int64  `json:"unix"`
}

type c18Query struct {
	Name   string `json:"name"`
	Hash   string `json:"hash"`
	After  int64  `json:"after"`
	Before int64  `json:"before"`
	Kind   string `json:"kind"`
}

type c18Scenario struct {
	Kind    string     `json:"kind"` // recv | sent | concurrent
	Colon   bool       `json:"colon_names"`
	Note    string     `json:"note,omitempty"`
	Records []c18Rec   `json:"records"`
	Queries []c18Query `json:"queries,omitempty"`
}

type recvFile struct {
	name, renamed, hash string
	size                int64
}

func (f *recvFile) GetName() string    { return f.name }
func (f *recvFile) GetRenamed() string { return f.renamed }
func (f *recvFile) GetHash() string    { return f.hash }
func (f *recvFile) GetSize() int64     { return f.size }
func (f *recvFile) TimeMs() int64      { return 7 }

// (calendar days are days of the LOCAL zone of the process under test, which varies per scenario)
func dayOf(t time.Time) string { return t.Local().Format("20060102") }

// daysTouched: every calendar day intersecting [a,b] (order-insensitive)
func daysTouched(a, b time.Time) map[string]bool {
	if b.Before(a) {
		a, b = b, a
	}
	out := map[string]bool{}
	d := time.Date(a.Local().Year(), a.Local().Month(), a.Local().Day(), 0, 0, 0, 0, time.Local)
	for !d.After(b) {
		out[dayOf(d)] = true
		d = d.Add(24 * time.Hour)
	}
	return out
}

func c18Names(rng *rand.Rand, colon bool) []string {
	stems := []string{"a", "ab", "abc", "x", "data", "sgp", "f1"}
	s := stems[rng.Intn(len(stems))]
	fam := []string{
		s, s + ".dat", s + ".dat.gz", "x" + s + ".dat", "dir/" + s + ".dat", s + ".d", s + ".b", s + ".b.c",
		"dir/sub/" + s, s + s, s + "_1", "1_" + s, strings.ToUpper(s) + ".dat", s + " 1.dat", "ü" + s + ".dat",
	}
	if colon {
		fam = append(fam, s+":1.dat", s+":", "d:"+s+".dat")
	}
	if rng.Intn(3) == 0 {
		// characters that mean something to a formatter or a pattern matcher
		fam = append(fam, s+"%20x.nc", s+"_100%.csv", "a%sb"+s+".dat", s+"%d.log", s+"%", "%"+s, s+"\\d+.dat", s+"[1].dat", s+"(1).dat", s+"+.dat", s+"$.dat", s+"*.dat", s+"?.dat")
	}
	if rng.Intn(3) == 0 {
		// white space at the edges of a name (and the twin name without it)
		fam = append(fam, " "+s+".dat", "\t"+s+".dat", "\u00a0"+s+".dat", s+".dat ", "  "+s, s+"\u2003")
	}
	rng.Shuffle(len(fam), func(i, j int) { fam[i], fam[j] = fam[j], fam[i] })
	n := 3 + rng.Intn(len(fam)-3)
	return fam[:n]
}

func c18Hash(rng *rand.Rand) string {
	const hexd = "0123456789abcdef"
	b := make([]byte, 32)
	for i := range b {
		b[i] = hexd[rng.Intn(16)]
	}
	return string(b)
}

func runC18(c *Ctx) {
	n := c.N(1600, 60000)
	nConc := c.N(160, 4000)
	for i := 0; i < n+nConc; i++ {
		if !c.Mine(i) {
			continue
		}
		rng := c.Rng(i)
		sc := &c18Scenario{}
		switch {
		case i >= n:
			sc.Kind = "concurrent"
		case rng.Intn(3) == 0:
			sc.Kind = "sent"
		default:
			sc.Kind = "recv"
		}
		sc.Colon = rng.Intn(5) == 0
		dir := filepath.Join(c.Work, fmt.Sprintf("c18-%d", i))
		c.Guard(i, sc, func() {
			bubble(c.T, func() { c18Run(c, i, rng, sc, dir) })
		})
		os.RemoveAll(dir)
	}
}

func c18Run(c *Ctx, idx int, rng *rand.Rand, sc *c18Scenario, dir string) {
	res := c.Res
	res.Eval()
	lg := stslog.NewFileIO(dir, nil, nil, false)
	names := c18Names(rng, sc.Colon)
	var logged []string
	hashesOf := map[string][]string{}
	var recs []c18Rec
	viol := func(clause, fp, detail string) {
		res.Violate(Violation{Clause: clause, Fingerprint: "C18/" + fp, Detail: detail, Scenario: sc, Index: idx})
	}
	// start at a random offset into the epoch so that month/year ends are hit
	time.Sleep(time.Duration(rng.Intn(400*24)) * time.Hour)
	time.Sleep(time.Duration(rng.Intn(86400)) * time.Second)
	start := time.Now()

	write := func(r *c18Rec) {
		f := &recvFile{name: r.Name, renamed: r.Renamed, hash: r.Hash, size: r.Size}
		if sc.Kind == "sent" {
			lg.Sent(f)
		} else {
			lg.Received(f)
		}
	}

	if sc.Kind == "concurrent" {
		// w writers log interleaved records; afterwards every record is present once
		w := 2 + rng.Intn(6)
		per := 3 + rng.Intn(12)
		var wg sync.WaitGroup
		all := make([][]c18Rec, w)
		for g := 0; g < w; g++ {
			for k := 0; k < per; k++ {
				all[g] = append(all[g], c18Rec{Name: fmt.Sprintf("w%d/%s.%d", g, names[rng.Intn(len(names))], k),
					Hash: c18Hash(rng), Size: int64(rng.Intn(1 << 20)), Renamed: ""})
			}
		}
		for g := 0; g < w; g++ {
			wg.Add(1)
			go func(g int) {
				defer wg.Done()
				for k := range all[g] {
					time.Sleep(time.Duration(g*k%7) * time.Millisecond)
					all[g][k].Unix = time.Now().Unix()
					all[g][k].Day = dayOf(time.Now())
					lg.Received(&recvFile{name: all[g][k].Name, hash: all[g][k].Hash, size: all[g][k].Size})
				}
			}(g)
		}
		wg.Wait()
		for g := range all {
			recs = append(recs, all[g]...)
		}
		sc.Records = recs
		seen := map[string]int{}
		lg.Parse(func(name, renamed, hash string, size int64, t time.Time) bool {
			seen[fmt.Sprintf("%s|%s|%s|%d", name, renamed, hash, size)]++
			return false
		}, start.Add(-time.Hour), time.Now().Add(time.Second))
		bad := 0
		for _, r := range recs {
			k := fmt.Sprintf("%s|%s|%s|%d", r.Name, r.Renamed, r.Hash, r.Size)
			if seen[k] != 1 {
				bad++
				if strings.Contains(r.Name, ":") {
					viol("concurrent-intact", "parse/colon-name", fmt.Sprintf("record %v seen %d times", r, seen[k]))
				} else {
					viol("concurrent-intact", "concurrent/lost-or-torn", fmt.Sprintf("record %v seen %d times (writers=%d)", r, seen[k], w))
				}
			}
			if !lg.WasReceived(r.Name, r.Hash, start.Add(-time.Hour), time.Now().Add(time.Second)) {
				c18ClassifyFN(viol, recs, r.Name, r.Hash, "concurrent")
			}
		}
		res.Count("records_written", int64(len(recs)))
		res.Count("concurrent_writers", int64(w))
		res.NonTrivial(fmt.Sprintf("conc/%d/%d/%s", w, per, names[0]))
		res.Sample(sc)
		return
	}

	// sequential phase: records spread over days
	nrec := 4 + rng.Intn(26)
	for k := 0; k < nrec; k++ {
		// advance the clock: mostly within a day, sometimes over days or months
		switch rng.Intn(10) {
		case 0:
			time.Sleep(time.Duration(1+rng.Intn(40)) * 24 * time.Hour)
		case 1, 2:
			time.Sleep(time.Duration(1+rng.Intn(30)) * time.Hour)
		case 3:
			// land just before/after midnight
			now := time.Now().Local()
			mid := time.Date(now.Year(), now.Month(), now.Day(), 0, 0, 0, 0, time.Local).Add(24 * time.Hour)
			time.Sleep(mid.Sub(now) + time.Duration(rng.Intn(3)-1)*time.Second)
		default:
			time.Sleep(time.Duration(rng.Intn(3000)) * time.Second)
		}
		name := names[rng.Intn(len(names))]
		var hash string
		if hs := hashesOf[name]; len(hs) > 0 && rng.Intn(3) == 0 {
			hash = hs[rng.Intn(len(hs))] // same version logged again
		} else {
			hash = c18Hash(rng)
		}
		r := c18Rec{Name: name, Hash: hash, Size: int64(1 + rng.Intn(1<<30))}
		if sc.Kind == "recv" && rng.Intn(3) == 0 {
			r.Renamed = "renamed/" + names[rng.Intn(len(names))]
			if strings.Contains(r.Renamed, ":") {
				r.Renamed = "renamed/plain"
			}
		}
		r.Unix = time.Now().Unix()
		r.Day = dayOf(time.Now())
		write(&r)
		recs = append(recs, r)
		hashesOf[name] = append(hashesOf[name], hash)
		logged = append(logged, name)
	}
	sc.Records = recs
	end := time.Now()
	res.Count("records_written", int64(len(recs)))
	days := map[string]bool{}
	for _, r := range recs {
		days[r.Day] = true
	}
	res.Count("distinct_days", int64(len(days)))

	was := lg.WasReceived
	if sc.Kind == "sent" {
		was = lg.WasSent
	}

	// one scenario in five: a day file of the past got a long run of NULs appended (what a
	// crash in the middle of a write can leave); everything before it is still readable,
	// and an unreadable rest of a file is no record of anything
	if rng.Intn(5) == 0 {
		today := dayOf(time.Now())
		var cands []string
		_ = filepath.Walk(dir, func(p string, info os.FileInfo, err error) error {
			if err == nil && !info.IsDir() && info.Size() > 0 {
				if d := filepath.Base(filepath.Dir(p)) + filepath.Base(p); d != today {
					cands = append(cands, p)
				}
			}
			return nil
		})
		if len(cands) > 0 {
			sort.Strings(cands)
			p := cands[rng.Intn(len(cands))]
			if fh, err := os.OpenFile(p, os.O_APPEND|os.O_WRONLY, 0o644); err == nil {
				_, _ = fh.Write(make([]byte, 70000+rng.Intn(70000)))
				fh.Close()
				sc.Note = "damaged day file: " + strings.TrimPrefix(p, dir)
				res.Count("scenarios_with_a_damaged_day_file", 1)
			}
		}
	}
	// queries
	nq := 24
	tAt := func() time.Time {
		switch rng.Intn(4) {
		case 0:
			return time.Unix(recs[rng.Intn(len(recs))].Unix, 0)
		case 1:
			return time.Unix(recs[rng.Intn(len(recs))].Unix, 0).Add(time.Duration(rng.Intn(72)-36) * time.Hour)
		default:
			span := end.Sub(start) + 48*time.Hour
			return start.Add(-24 * time.Hour).Add(time.Duration(rng.Int63n(int64(span))))
		}
	}
	for q := 0; q < nq; q++ {
		var qn, qh, kind string
		switch rng.Intn(6) {
		case 0: // a name from the family that was never logged
			qn = names[rng.Intn(len(names))]
			kind = "family"
		case 1: // a substring / prefix / suffix of a logged name
			l := logged[rng.Intn(len(logged))]
			if len(l) > 1 {
				a := rng.Intn(len(l))
				b := a + 1 + rng.Intn(len(l)-a)
				qn = l[a:b]
			} else {
				qn = l
			}
			kind = "substring"
		default:
			qn = logged[rng.Intn(len(logged))]
			kind = "logged"
		}
		switch rng.Intn(4) {
		case 0:
			qh = ""
		case 1:
			qh = c18Hash(rng)
		case 2:
			qh = recs[rng.Intn(len(recs))].Hash
		default:
			if hs := hashesOf[qn]; len(hs) > 0 {
				qh = hs[rng.Intn(len(hs))]
			}
		}
		var a, b time.Time
		switch rng.Intn(7) {
		case 0: // everything
			a, b = start.Add(-time.Hour), end.Add(time.Hour)
			kind += "/all"
		case 1: // reversed
			a, b = end.Add(time.Hour), start.Add(-time.Hour)
			kind += "/reversed"
		case 2: // empty
			a = tAt()
			b = a
			kind += "/empty"
		case 3: // same day as a record
			r := recs[rng.Intn(len(recs))]
			a = time.Unix(r.Unix, 0).Add(-time.Minute)
			b = time.Unix(r.Unix, 0).Add(time.Minute)
			kind += "/around"
		default:
			a, b = tAt(), tAt()
			kind += "/random"
		}
		qq := c18Query{Name: qn, Hash: qh, After: a.Unix(), Before: b.Unix(), Kind: kind}
		got := was(qn, qh, a, b)
		res.Count("queries", 1)
		// reference
		touched := daysTouched(a, b)
		exactAny, exactTouched := false, false
		for _, r := range recs {
			if r.Name == qn && (qh == "" || r.Hash == qh) {
				exactAny = true
				if touched[r.Day] {
					exactTouched = true
				}
			}
		}
		if a.Equal(b) {
			exactTouched = false // an empty window is not required to match
		}
		if got && !exactAny {
			sc.Queries = append(sc.Queries, qq)
			c18ClassifyFP(viol, recs, qq)
		}
		if !got && exactTouched {
			sc.Queries = append(sc.Queries, qq)
			c18ClassifyFN(viol, recs, qn, qh, kind)
		}
		if exactTouched {
			res.Count("queries_must_yes", 1)
		}
		if !exactAny {
			res.Count("queries_must_no", 1)
		}
	}

	// Parse: replay yields every record written, field by field, in order
	if sc.Kind == "recv" {
		type got struct {
			name, renamed, hash string
			size, unix          int64
		}
		var gs []got
		lg.Parse(func(name, renamed, hash string, size int64, t time.Time) bool {
			gs = append(gs, got{name, renamed, hash, size, t.Unix()})
			return false
		}, start.Add(-time.Minute), end.Add(time.Second))
		res.Count("parse_replays", 1)
		if len(gs) != len(recs) {
			viol("parse-roundtrip", "parse/count", fmt.Sprintf("parsed %d records, wrote %d", len(gs), len(recs)))
		} else {
			for k, r := range recs {
				g := gs[k]
				if g.name != r.Name || g.renamed != r.Renamed || g.hash != r.Hash || g.size != r.Size || g.unix != r.Unix {
					fp := "parse/mismatch"
					if strings.Contains(r.Name, ":") {
						// name[:rename]:hash:size:time cannot carry a ':' inside the name
						fp = "parse/colon-name"
					}
					viol("parse-roundtrip", fp, fmt.Sprintf("record %d written %+v parsed as %+v", k, r, g))
					break
				}
			}
		}
	}
	res.NonTrivial(fmt.Sprintf("%s/%v/%d/%d/%s", sc.Kind, sc.Colon, len(recs), len(days), strings.Join(names, ",")))
	if len(sc.Queries) > 3 {
		sc.Queries = sc.Queries[:3]
	}
	res.Sample(sc)
}

func firstN[T any](s []T, n int) []T {
	if len(s) > n {
		return s[:n]
	}
	return s
}

func c18ClassifyFP(viol func(clause, fp, detail string), recs []c18Rec, q c18Query) {
	// why could the implementation have said yes?
	sameNameOtherHash, substr, colonPrefix := false, false, false
	for _, r := range recs {
		if r.Name == q.Name {
			sameNameOtherHash = true
		}
		line := r.Name + ":" + r.Renamed + ":" + r.Hash
		if r.Name != q.Name && strings.Contains(line, q.Name) {
			substr = true
		}
		// the record format cannot tell name "a" from the first field of "a:1.dat"
		if r.Name != q.Name && strings.HasPrefix(r.Name, q.Name+":") {
			colonPrefix = true
		}
	}
	fp := "lookup-false-positive/unexplained"
	switch {
	case colonPrefix || strings.Contains(q.Name, ":"):
		fp = "lookup-false-positive/colon-name"
	case sameNameOtherHash && q.Hash != "":
		fp = "lookup-false-positive/other-hash"
	case substr:
		fp = "lookup-false-positive/substring"
	}
	viol("lookup-never-yes-without-exact-record", fp,
		fmt.Sprintf("lookup(%q,%q,%s) answered yes but no record with exactly that name/hash was ever written", q.Name, q.Hash, q.Kind))
}

func c18ClassifyFN(viol func(clause, fp, detail string), recs []c18Rec, name, hash, kind string) {
	shadow := false
	for _, r := range recs {
		if r.Name == name && r.Hash == hash {
			continue
		}
		line := r.Name + ":" + r.Renamed + ":" + r.Hash
		if strings.Contains(line, name) {
			shadow = true
		}
	}
	fp := "lookup-false-negative/unexplained"
	if shadow {
		fp = "lookup-false-negative/shadowed-by-other-line"
	}
	viol("lookup-yes-when-exact-record-on-touched-day", fp,
		fmt.Sprintf("lookup(%q,%q,%s) answered no although that exact record was written on a day the window touches", name, hash, kind))
}
