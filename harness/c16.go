package harness

import (
	"fmt"
	"math/rand"
	"os"
	"path/filepath"
	"regexp"
	"runtime"
	"sort"
	"strings"
	"sync"
	"testing/synctest"
	"time"

	"github.com/arm-doe/sts"
)

// C16 — one-shot and graceful stops finish the work; every stop terminates.

func init() { register("C16", func(c *Ctx) { runC16(c); runC16Restart(c) }) }

type wsFile struct {
	Name string `json:"name"`
	Size int64  `json:"size"`
}

type c16Scenario struct {
	Conf     *wConf   `json:"conf"`
	Files    []wsFile `json:"files"`
	Faults   []fault  `json:"faults,omitempty"`
	StopAt   int      `json:"stop_at_action"`
	StopKind string   `json:"stop_at_kind,omitempty"` // instead of an action number: the StopNth-th action of this kind
	StopNth  int      `json:"stop_at_nth,omitempty"`
	Graceful bool     `json:"graceful"`
	RefActs  int      `json:"reference_actions"`
	Events   []wEvent `json:"events_tail,omitempty"`
}

func genFiles(rng *rand.Rand, n int, maxSize int64) []wsFile {
	var out []wsFile
	groups := []string{"a", "b", "dir/c", "dir/sub/d"}
	for i := 0; i < n; i++ {
		g := groups[rng.Intn(len(groups))]
		size := 1 + rng.Int63n(maxSize)
		if rng.Intn(6) == 0 {
			size = 1 + rng.Int63n(4)
		}
		out = append(out, wsFile{Name: fmt.Sprintf("%s.%03d.dat", g, i), Size: size})
	}
	return out
}

// writeFiles puts the files into the outgoing directory with increasing mtimes
func (w *world) writeFiles(files []wsFile) {
	base := time.Now().Add(-time.Duration(len(files)+5) * time.Minute)
	// one run in three has a backlog: the first j files were written hours or days ago
	// (their modification times lie on earlier calendar days, at any time of day)
	backlog, old := 0, time.Duration(0)
	if w.rng.Intn(3) == 0 {
		backlog = 1 + w.rng.Intn(len(files))
		old = time.Duration(1+w.rng.Intn(72))*time.Hour + time.Duration(w.rng.Intn(3600))*time.Second
	}
	for i, f := range files {
		mt := base.Add(time.Duration(i) * time.Minute)
		if i < backlog {
			mt = mt.Add(-old)
		}
		w.writeSource(f.Name, randBytes(w.rng, f.Size), mt)
	}
}

// brokerGoroutines lists the Broker goroutines of the newest bubble with their
// wait state (witness for termination violations)
func brokerGoroutines() string {
	buf := make([]byte, 4<<20)
	n := runtime.Stack(buf, true)
	re := regexp.MustCompile(`client\.\(\*Broker\)\.(\w+)`)
	rb := regexp.MustCompile(`synctest bubble (\d+)`)
	type g struct {
		bubble int
		desc   string
	}
	var gs []g
	maxB := 0
	for _, blk := range strings.Split(string(buf[:n]), "\n\n") {
		head := strings.SplitN(blk, "\n", 2)[0]
		bm := rb.FindStringSubmatch(head)
		if bm == nil {
			continue
		}
		b := 0
		fmt.Sscanf(bm[1], "%d", &b)
		if b > maxB {
			maxB = b
		}
		// innermost Broker frame and, if present, the line it is blocked at
		if m := re.FindStringSubmatch(blk); m != nil {
			st := ""
			if i := strings.Index(head, "["); i >= 0 {
				st = strings.TrimSuffix(head[i:], ":")
			}
			line := ""
			if lm := regexp.MustCompile(`client/client\.go:(\d+)`).FindStringSubmatch(blk); lm != nil {
				line = ":" + lm[1]
			}
			gs = append(gs, g{b, m[1] + line + " " + st})
		}
	}
	var out []string
	for _, x := range gs {
		if x.bubble == maxB {
			out = append(out, strings.Replace(x.desc, fmt.Sprintf(", synctest bubble %d", maxB), "", 1))
		}
	}
	sort.Strings(out)
	return strings.Join(out, "; ")
}

func runC16(c *Ctx) {
	nScen := c.N(6, 40)
	perScen := c.N(60, 400)
	idx := 0
	for s := 0; s < nScen; s++ {
		srng := rand.New(rand.NewSource(c.Seed*1000 + int64(s)))
		conf := defaultConf(srng)
		conf.Tags[0].Delete = srng.Intn(2) == 0
		nfiles := []int{1, 2, 5, 9, 14, 25}[s%6]
		files := genFiles(srng, nfiles, 3*conf.PayloadSize)
		var faults []fault
		if s%2 == 1 {
			kinds := []string{fRefuse, fFailPart, fCutBefore, fLostAnswer, fPollFail, fPollLost, fRecoverFail, fCorrupt}
			for k := 0; k < 1+srng.Intn(3); k++ {
				faults = append(faults, fault{Kind: kinds[srng.Intn(len(kinds))], Nth: 1 + srng.Intn(3), K: srng.Intn(2)})
			}
		}
		if s%3 == 2 {
			// validation-failure storm: from some request on, every data request is
			// damaged in transit, so every poll verdict is "failed" and the retry
			// channel (capacity 2 x threads) fills while the stop is in progress
			conf.Threads = 1 + srng.Intn(2)
			faults = []fault{{Kind: fCorrupt, Nth: 1 + srng.Intn(4), K: 0, Repeat: 100000}}
		}
		immediateOnly := false
		hashingPhase := 0
		if s%6 == 0 && s > 0 || (c.N(1, 0) == 1 && s == 0) {
			// many small files: a scan's hashing phase hands dozens of multi-file
			// batches to a small worker pool; half of the stops of this scenario arrive
			// while that is going on (every opened file is a boundary action)
			conf.Threads = 1 + srng.Intn(2)
			nfiles = 60 + srng.Intn(60)
			files = genFiles(srng, nfiles, conf.PayloadSize/6+2)
			faults = nil
			hashingPhase = nfiles + 4
		}
		if s%6 == 4 {
			// outage: from some request on the receiver refuses every data request, so
			// the senders loop on failures and the channels in front of them stay full
			// for many seconds before the stop arrives.  Only immediate stops: a graceful
			// one cannot finish its work while nothing gets through.
			conf.Threads = 1 + srng.Intn(2)
			if nfiles < 9 {
				nfiles = 9 + srng.Intn(8)
				files = genFiles(srng, nfiles, 3*conf.PayloadSize)
			}
			faults = []fault{{Kind: []string{fRefuse, fUnavailable, fCutBefore}[srng.Intn(3)], Nth: 1 + srng.Intn(3), K: 0, Repeat: 100000}}
			immediateOnly = true
		}
		// reference run: count boundary actions of an uninterrupted one-shot run
		// (every child runs it, so that all agree on the range of stop points;
		// only the owner of the index counts it as an evaluation)
		refActs := 0
		refSeed := srng.Int63()
		if immediateOnly {
			// an uninterrupted run never ends during an outage: fixed range of stop points
			refActs = 60 + 12*nfiles
		} else {
			dir := filepath.Join(c.Work, fmt.Sprintf("c16-ref-%d", s))
			sc := &c16Scenario{Conf: conf, Files: files, Faults: faults, StopAt: 0, Graceful: true}
			mine := c.Mine(idx)
			c.Guard(idx, sc, func() {
				bubble(c.T, func() { refActs = c16Run(c, idx, refSeed, sc, dir, mine) })
			})
			os.RemoveAll(dir)
		}
		idx++
		if refActs == 0 {
			refActs = 40 + 12*nfiles
		}
		for k := 0; k < perScen; k++ {
			if c.Mine(idx) {
				rng := c.Rng(idx)
				sc := &c16Scenario{Conf: conf, Files: files, Faults: faults, RefActs: refActs,
					StopAt: rng.Intn(refActs + 5), Graceful: rng.Intn(3) != 0}
				if k < 4 {
					sc.StopAt = 0 // the one-shot case, repeated with different latencies
					sc.Graceful = true
				}
				if immediateOnly {
					sc.Graceful = false
					sc.StopAt = 1 + rng.Intn(refActs+5)
					if k%2 == 1 {
						// ... or the outage is there from the start: the start-up recovery request
						// ("which partial files do you hold") fails over and over, and the stop
						// arrives before the sender has got past it
						sc.Faults = []fault{{Kind: fPartialsErr, Nth: 1, Repeat: 100000}}
						sc.StopAt = 1 + rng.Intn(12)
					}
				}
				if !immediateOnly && hashingPhase == 0 && k >= 4 && k%5 == 3 {
					// an immediate stop that arrives while the sender works through a poll
					// answer: right after the n-th file was marked done (what was confirmed
					// before the stop still has to reach the cache file)
					sc.Graceful = false
					sc.StopAt = -1
					sc.StopKind = []string{"cache:done:return", "cache:done", "store:remove:return"}[rng.Intn(3)]
					sc.StopNth = 1 + rng.Intn(nfiles)
					// polls that carry many verdicts: everything is sent before the first poll
					cc := *conf
					cc.PollDelay = time.Duration(20+rng.Intn(40)) * time.Second
					cc.PollInterval = time.Duration(10+rng.Intn(20)) * time.Second
					cc.PollMax = nfiles + rng.Intn(5)
					cc.Tags = append([]wTag{}, conf.Tags...)
					cc.Tags[0].Delete = rng.Intn(3) != 0
					cc.Tags[0].DeleteDelay = 0
					sc.Conf = &cc
					sc.Faults = nil
				}
				if hashingPhase > 0 && k >= 4 && k%2 == 0 {
					sc.StopAt = 2 + rng.Intn(hashingPhase)
					sc.Graceful = rng.Intn(4) == 0
				}
				dir := filepath.Join(c.Work, fmt.Sprintf("c16-%d", idx))
				c.Guard(idx, sc, func() {
					bubble(c.T, func() { c16Run(c, idx, rng.Int63(), sc, dir, true) })
				})
				os.RemoveAll(dir)
			}
			idx++
		}
	}
}

func c16Run(c *Ctx, idx int, seed int64, sc *c16Scenario, dir string, count bool) int {
	res := c.Res
	if !count {
		res = &Result{Nontrivial: map[string]int{}, Counters: map[string]int64{}}
	}
	res.Eval()
	rng := rand.New(rand.NewSource(seed))
	w := newWorld(dir, sc.Conf, rng)
	defer w.close()
	w.faults = sc.Faults
	viol := func(clause, fp, detail string) {
		sc.Events = w.log.tail(120)
		res.Violate(Violation{Clause: clause, Fingerprint: "C16/" + fp, Detail: detail, Scenario: sc, Index: idx})
	}
	w.writeFiles(sc.Files)

	var mu sync.Mutex
	acts := 0
	stopped := false
	var stopAt time.Duration
	scansBegunBeforeStop := 0
	positive := map[string]bool{} // names with a positive poll answer handed to the broker
	lastCode := map[string]int{}  // the latest poll verdict per name
	var s *sender
	pendingStop := false
	kindSeen := 0
	sendStop := func() {
		if stopped {
			return
		}
		if s == nil {
			// the sender's first actions run before startSender has returned
			pendingStop = true
			return
		}
		stopped = true
		stopAt = w.vt()
		w.log.add(wEvent{Kind: "stop_request", A: b2i(sc.Graceful)})
		s.stop <- sc.Graceful
	}
	w.onAction = func(kind string) {
		mu.Lock()
		defer mu.Unlock()
		acts++
		if kind == "store:scan" && !stopped {
			scansBegunBeforeStop++
		}
		if sc.StopAt > 0 && acts == sc.StopAt {
			sendStop()
		}
		if sc.StopKind != "" && kind == sc.StopKind {
			kindSeen++
			if kindSeen == sc.StopNth {
				sendStop()
			}
		}
	}
	w.onStatus = func(name string, code int) {
		mu.Lock()
		if code == sts.ConfirmPassed || code == sts.ConfirmWaiting {
			positive[name] = true
		}
		lastCode[name] = code
		mu.Unlock()
	}
	{
		ns := w.startSender()
		mu.Lock()
		s = ns
		if pendingStop {
			sendStop()
		}
		mu.Unlock()
	}
	if sc.StopAt == 0 {
		mu.Lock()
		sendStop()
		mu.Unlock()
	}
	// wait for the stop request to have been issued (the run may finish its
	// boundary actions before StopAt is reached: then stop now)
	deadline := 6 * time.Hour
	for i := 0; i < 2000; i++ {
		mu.Lock()
		st := stopped
		mu.Unlock()
		if st {
			break
		}
		time.Sleep(5 * time.Second)
		if w.vt() > time.Hour {
			mu.Lock()
			sendStop()
			mu.Unlock()
		}
	}
	bound := 300 * time.Second
	if sc.Graceful {
		bound = deadline
	}
	ok := s.waitDone(bound)
	synctest.Wait()
	took := w.vt() - stopAt
	res.Count("stops", 1)
	if sc.Graceful {
		res.Count("stops_graceful", 1)
	} else {
		res.Count("stops_immediate", 1)
	}
	if !ok {
		fp := "graceful-stop-does-not-terminate"
		if !sc.Graceful {
			fp = "immediate-stop-does-not-terminate"
		}
		viol("termination", fp, fmt.Sprintf("Start did not return within %s (virtual) of the %s stop issued at action %d; broker goroutines: %s",
			bound, map[bool]string{true: "graceful", false: "immediate"}[sc.Graceful], sc.StopAt, brokerGoroutines()))
		return acts
	}
	res.Count("virtual_seconds_to_exit", int64(took/time.Second))

	onDisk := w.cacheOnDisk()
	if os.Getenv("VERIF_C16_DEBUG") != "" && sc.StopKind != "" {
		fmt.Fprintf(os.Stderr, "C16DEBUG idx=%d kind=%s nth=%d seen=%d stopped=%v delete=%v positive=%v ondisk=%v polls=%v\n", idx, sc.StopKind, sc.StopNth, kindSeen, stopped, sc.Conf.Tags[0].Delete, positive, onDisk, w.log.tail(40))
	}
	final := w.finalFiles()
	nFailedVerdicts := 0
	for _, cd := range lastCode {
		if cd == sts.ConfirmFailed {
			nFailedVerdicts++
		}
	}
	if sc.Graceful && scansBegunBeforeStop > 0 {
		// every file found by a scan that began before the stop: delivered, confirmed, recorded
		for _, f := range sc.Files {
			v := w.latestVersion(f.Name)
			if lastCode[f.Name] == sts.ConfirmFailed {
				// polled to a verdict, and the verdict was "failed": the stop does not wait for another transmission
				res.Count("graceful_exit_with_failed_verdict", 1)
				continue
			}
			if lastCode[f.Name] == sts.ConfirmWaiting && nFailedVerdicts > 0 && final[targetName(w, f.Name)] == "" {
				// validated and recorded; the receiver holds it behind a predecessor whose verdict was "failed"
				if _, err := os.Stat(filepath.Join(w.recv.StageDir, f.Name+".wait")); err == nil {
					res.Count("graceful_exit_with_file_held_behind_failed_predecessor", 1)
					continue
				}
			}
			if final[targetName(w, f.Name)] != v.MD5 {
				viol("graceful-completeness", "graceful-undelivered", fmt.Sprintf("graceful stop at action %d: %s was found by a scan begun before the stop but is not in the final directory when Start returns", sc.StopAt, f.Name))
				break
			}
			done, known := onDisk[f.Name]
			_, serr := os.Stat(filepath.Join(w.outDir, f.Name))
			tag := w.tagOf(f.Name)
			if tag.Delete && tag.DeleteDelay == 0 {
				if serr == nil && !(known && done) {
					viol("graceful-completeness", "graceful-unrecorded", fmt.Sprintf("graceful stop: %s delivered but neither deleted nor recorded done in the queue cache", f.Name))
					break
				}
			} else if !(known && done) {
				viol("graceful-completeness", "graceful-unrecorded", fmt.Sprintf("graceful stop: %s delivered but the queue cache on disk does not say done (known=%v done=%v)", f.Name, known, done))
				break
			}
		}
	}
	// nothing confirmed is left unrecorded (both kinds of stop): a file with a
	// positive answer is done/removed in the persisted cache, or still present at
	// the source so that the next start polls it again
	for name := range positive {
		done, known := onDisk[name]
		_, serr := os.Stat(filepath.Join(w.outDir, name))
		if known && done {
			continue
		}
		if serr == nil {
			continue // unreleased: recoverable
		}
		if !known {
			continue // deleted and dropped from the cache together
		}
		viol("confirmed-recorded", "confirmed-unrecorded", fmt.Sprintf("%s: positive poll answer, source file gone, but the persisted queue cache still says not done", name))
		break
	}
	nFailed := 0
	for _, cd := range lastCode {
		if cd == sts.ConfirmFailed {
			nFailed++
		}
	}
	if nFailed > 2*sc.Conf.Threads {
		res.Count("stops_with_more_failed_verdicts_than_retry_capacity", 1)
	}
	key := fmt.Sprintf("%d/%v/%d/%d/%v", len(sc.Files), sc.Graceful, sc.StopAt, sc.Conf.Threads, len(sc.Faults))
	res.NonTrivial(key)
	res.Sample(map[string]any{"files": len(sc.Files), "threads": sc.Conf.Threads, "stop_at_action": sc.StopAt, "graceful": sc.Graceful,
		"faults": sc.Faults, "actions_observed": acts, "virtual_seconds_to_exit": int64(took / time.Second), "delivered": len(final)})
	return acts
}

func b2i(b bool) int64 {
	if b {
		return 1
	}
	return 0
}
