package harness

import (
	"fmt"
	"math/rand"
	"os"
	"path/filepath"
	"testing/synctest"
	"time"

	"github.com/arm-doe/sts"
)

// C01 (overlapping requests of two versions) - two connections carry parts of two
// versions of one name whose sizes differ (a file that grew, or shrank, while it was being
// sent); the steps of the two requests interleave at request granularity: Prepare of one
// request falls between Prepare and Receive of the other, so the staged body is sized
// for one version while the bytes of the other arrive.
//
// Oracle: whatever reaches the final directory or the Dispatcher is byte-identical to ONE
// of the two versions and is logged with that version's hash; a staged body that matches
// neither is reported 'failed' (never 'passed' / 'waiting'), so that it is sent again;
// after both versions were then sent again in full, one of them is delivered.

type c01oScenario struct {
	Size1 int64    `json:"size_v1"`
	Size2 int64    `json:"size_v2"`
	Steps []string `json:"steps"`
}

func runC01Overlap(c *Ctx) {
	n := c.N(200, 5000)
	for i := 0; i < n; i++ {
		idx := 8_000_000 + i
		if !c.Mine(idx) {
			continue
		}
		rng := c.Rng(idx)
		sc := &c01oScenario{}
		dir := filepath.Join(c.Work, fmt.Sprintf("c01o-%d", idx))
		c.Guard(idx, sc, func() {
			bubble(c.T, func() { c01OverlapRun(c, idx, rng, sc, dir) })
		})
		os.RemoveAll(dir)
	}
}

func c01OverlapRun(c *Ctx, idx int, rng *rand.Rand, sc *c01oScenario, dir string) {
	res := c.Res
	res.Eval()
	viol := func(clause, fp, detail string) {
		res.Violate(Violation{Clause: clause, Fingerprint: "C01/" + fp, Detail: detail, Scenario: sc, Index: idx})
	}
	rs := newRecvSide(dir, false)
	defer rs.close()
	name := "d/grow.dat"
	s1 := int64(1 + rng.Intn(6000))
	var s2 int64
	switch rng.Intn(3) {
	case 0: // appended to
		s2 = s1 + int64(1+rng.Intn(3000))
	case 1: // truncated
		s2 = 1 + rng.Int63n(s1)
	default:
		s2 = int64(1 + rng.Intn(6000))
	}
	if s2 == s1 {
		s2++
	}
	sc.Size1, sc.Size2 = s1, s2
	v1 := randBytes(rng, s1)
	v2 := randBytes(rng, s2)
	if rng.Intn(2) == 0 {
		// the new version keeps the old one as its beginning (append) or is its beginning (truncate)
		if s2 > s1 {
			copy(v2, v1)
		} else {
			copy(v2, v1[:s2])
		}
	}
	vers := [][]byte{v1, v2}
	hashes := []string{md5hex(v1), md5hex(v2)}
	ftime := time.Now().Add(-time.Hour)
	type part struct {
		v    int
		b, e int64
	}
	mk := func(v int) []part {
		size := int64(len(vers[v]))
		if size < 2 || rng.Intn(2) == 0 {
			return []part{{v, 0, size}}
		}
		cut := 1 + rng.Int63n(size-1)
		return []part{{v, 0, cut}, {v, cut, size}}
	}
	descOf := func(p part) *desc {
		return &desc{Name: name, Hash: hashes[p.v], Size: int64(len(vers[p.v])), Time: ftime, Beg: p.b, End: p.e, Send: int64(len(vers[p.v]))}
	}
	prepare := func(ps []part) {
		var bs []sts.Binned
		for _, p := range ps {
			bs = append(bs, descOf(p))
		}
		rs.Stage.Prepare(bs)
		sc.Steps = append(sc.Steps, fmt.Sprintf("prepare v%d %v", ps[0].v+1, ps))
	}
	receive := func(p part) {
		d := descOf(p)
		err := rs.Stage.Receive(d.partial("src"), &chunkyReader{data: vers[p.v][p.b:p.e], rng: rng, stop: -1})
		sc.Steps = append(sc.Steps, fmt.Sprintf("receive v%d [%d,%d) err=%v", p.v+1, p.b, p.e, err))
	}
	// two requests, one per version; interleave their steps: each request is
	// Prepare(all its parts) then Receive(part) for each part
	reqs := [][]part{mk(0), mk(1)}
	if rng.Intn(2) == 0 {
		reqs[0], reqs[1] = reqs[1], reqs[0]
	}
	type step struct {
		r, k int // k = -1: prepare
	}
	var a, b []step
	a = append(a, step{0, -1})
	for k := range reqs[0] {
		a = append(a, step{0, k})
	}
	b = append(b, step{1, -1})
	for k := range reqs[1] {
		b = append(b, step{1, k})
	}
	for len(a) > 0 || len(b) > 0 {
		var st step
		if len(b) == 0 || (len(a) > 0 && rng.Intn(2) == 0) {
			st, a = a[0], a[1:]
		} else {
			st, b = b[0], b[1:]
		}
		if st.k < 0 {
			prepare(reqs[st.r])
		} else {
			receive(reqs[st.r][st.k])
		}
		synctest.Wait()
	}
	settle := func() {
		synctest.Wait()
		time.Sleep(3 * time.Second)
		synctest.Wait()
		rs.restamp()
	}
	settle()
	check := func(when string) bool {
		for _, ev := range rs.Disp.Events() {
			if ev.MD5 != hashes[0] && ev.MD5 != hashes[1] {
				viol("delivered-bytes-identical", "overlap-delivered-neither-version", fmt.Sprintf("%s: the Dispatcher was handed %s with %d bytes, md5 %s - neither version 1 (%d bytes, %s) nor version 2 (%d bytes, %s); steps: %v", when, ev.Rel, ev.Size, ev.MD5, s1, hashes[0], s2, hashes[1], sc.Steps))
				return false
			}
		}
		if b, err := os.ReadFile(filepath.Join(rs.FinalDir, name)); err == nil {
			h := md5hex(b)
			if h != hashes[0] && h != hashes[1] {
				viol("delivered-bytes-identical", "overlap-final-neither-version", fmt.Sprintf("%s: the final directory holds %d bytes, md5 %s - neither version", when, len(b), h))
				return false
			}
			logged := false
			for _, l := range rs.Log.Recs() {
				if l.Name == name && l.Hash == h {
					logged = true
				}
			}
			if !logged {
				viol("logged-with-its-hash", "overlap-delivered-unlogged", fmt.Sprintf("%s: delivered content md5 %s has no receive-log record with that hash", when, h))
				return false
			}
		}
		return true
	}
	if !check("after the overlapping requests") {
		return
	}
	// what the senders do next: poll, and send again in full when told 'failed' / 'not found'
	delivered := func() bool {
		b, err := os.ReadFile(filepath.Join(rs.FinalDir, name))
		return err == nil && (md5hex(b) == hashes[0] || md5hex(b) == hashes[1])
	}
	for round := 0; round < 3 && !delivered(); round++ {
		st := rs.Stage.GetFileStatus(name, ftime)
		res.Count(fmt.Sprintf("overlap_poll_answer_%d", st), 1)
		if st == sts.ConfirmPassed || st == sts.ConfirmWaiting {
			viol("failed-version-reported-failed", "overlap-positive-answer-without-delivery", fmt.Sprintf("the poll answers %d although nothing identical to a version was delivered or is held; steps: %v", st, sc.Steps))
			return
		}
		v := 1 // the newer version is what the sender has now
		ps := mk(v)
		prepare(ps)
		for _, p := range ps {
			receive(p)
		}
		settle()
		if !check("after the re-send") {
			return
		}
	}
	if !delivered() {
		viol("delivered-after-resend", "overlap-never-delivered", fmt.Sprintf("after three complete re-sends of version 2 nothing is delivered; steps: %v", sc.Steps))
		return
	}
	res.Count("overlap_histories", 1)
	res.NonTrivial(fmt.Sprintf("c01o/%d/%d/%v", s1, s2, sc.Steps))
	res.Sample(sc)
}
