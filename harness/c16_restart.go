package harness

import (
	"fmt"
	"math/rand"
	"os"
	"path/filepath"
	"sync"
	"testing/synctest"
	"time"

	"github.com/arm-doe/sts"
)

// C16 (second instance) - a sender is stopped immediately after everything was transmitted
// but before anything was polled; a NEW sender instance starts over the persisted cache, its
// start-up recovery polls the files (all delivered: positive answers), and an immediate
// stop arrives while it works through such an answer - right at the n-th file marked done.
// Oracle as for every stop: Start returns within the bound, and nothing that was
// confirmed is left unrecorded in the queue cache on disk (a file with a positive answer
// is done / dropped there, or its source file still exists).

type c16rScenario struct {
	Conf    *wConf   `json:"conf"`
	Files   []wsFile `json:"files"`
	StopNth int      `json:"stop_at_nth_done_of_start_up_recovery"`
	Kind    string   `json:"stop_at_kind"`
	Events  []wEvent `json:"events_tail,omitempty"`
}

func runC16Restart(c *Ctx) {
	n := c.N(60, 1500)
	for i := 0; i < n; i++ {
		idx := 7_000_000 + i
		if !c.Mine(idx) {
			continue
		}
		rng := c.Rng(idx)
		conf := defaultConf(rng)
		conf.PollDelay = 10 * time.Minute // nothing is polled before the first stop
		conf.PollInterval = 5 * time.Minute
		conf.Tags[0].Delete = rng.Intn(4) != 0
		conf.Tags[0].DeleteDelay = 0
		nfiles := 2 + rng.Intn(9)
		conf.PollMax = 1 + rng.Intn(nfiles+3)
		sc := &c16rScenario{Conf: conf, Files: genFiles(rng, nfiles, 2*conf.PayloadSize), StopNth: 1 + rng.Intn(nfiles),
			Kind: []string{"cache:done:return", "cache:done", "store:remove:return"}[rng.Intn(3)]}
		dir := filepath.Join(c.Work, fmt.Sprintf("c16r-%d", idx))
		seed := rng.Int63()
		c.Guard(idx, sc, func() {
			bubble(c.T, func() { c16RestartRun(c, idx, seed, sc, dir) })
		})
		os.RemoveAll(dir)
	}
}

func c16RestartRun(c *Ctx, idx int, seed int64, sc *c16rScenario, dir string) {
	res := c.Res
	res.Eval()
	rng := rand.New(rand.NewSource(seed))
	w := newWorld(dir, sc.Conf, rng)
	defer w.close()
	viol := func(clause, fp, detail string) {
		sc.Events = w.log.tail(120)
		res.Violate(Violation{Clause: clause, Fingerprint: "C16/" + fp, Detail: detail, Scenario: sc, Index: idx})
	}
	w.writeFiles(sc.Files)
	var mu sync.Mutex
	positive := map[string]bool{}
	w.onStatus = func(name string, code int) {
		mu.Lock()
		if code == sts.ConfirmPassed || code == sts.ConfirmWaiting {
			positive[name] = true
		}
		mu.Unlock()
	}
	// ---- first instance: transmit everything, stop before any poll
	s1 := w.startSender()
	delivered := false
	for k := 0; k < 400 && !delivered; k++ {
		time.Sleep(2 * time.Second)
		synctest.Wait()
		delivered = len(w.finalFiles()) >= len(sc.Files)
	}
	if !delivered {
		res.Inconc("first instance did not deliver everything within the time allowed")
		s1.stop <- false
		s1.waitDone(300 * time.Second)
		return
	}
	s1.stop <- false
	if !s1.waitDone(300 * time.Second) {
		viol("termination", "immediate-stop-does-not-terminate", "first instance: Start did not return within 300 s (virtual) of an immediate stop issued after everything was transmitted; broker goroutines: "+brokerGoroutines())
		return
	}
	synctest.Wait()
	// ---- second instance: stopped inside its start-up recovery
	var s2 *sender
	seen, stopped, pending := 0, false, false
	var stopAt time.Duration
	sendStop := func() {
		if stopped {
			return
		}
		if s2 == nil {
			pending = true
			return
		}
		stopped = true
		stopAt = w.vt()
		w.log.add(wEvent{Kind: "stop_request", A: 0})
		s2.stop <- false
	}
	w.onAction = func(kind string) {
		mu.Lock()
		defer mu.Unlock()
		if kind == sc.Kind {
			seen++
			if seen == sc.StopNth {
				sendStop()
			}
		}
	}
	{
		ns := w.startSender()
		mu.Lock()
		s2 = ns
		if pending {
			sendStop()
		}
		mu.Unlock()
	}
	for k := 0; k < 200; k++ {
		mu.Lock()
		st := stopped
		mu.Unlock()
		if st {
			break
		}
		time.Sleep(3 * time.Second)
	}
	mu.Lock()
	if !stopped {
		sendStop() // the recovery finished before the n-th action came
	}
	mu.Unlock()
	if !s2.waitDone(300 * time.Second) {
		viol("termination", "immediate-stop-does-not-terminate", fmt.Sprintf("second instance: Start did not return within 300 s (virtual) of the immediate stop issued at the %d. %s of its start-up recovery; broker goroutines: %s", sc.StopNth, sc.Kind, brokerGoroutines()))
		return
	}
	synctest.Wait()
	_ = stopAt
	onDisk := w.cacheOnDisk()
	mu.Lock()
	defer mu.Unlock()
	for name := range positive {
		done, known := onDisk[name]
		_, serr := os.Stat(filepath.Join(w.outDir, name))
		if (known && done) || serr == nil || !known {
			continue
		}
		viol("confirmed-recorded", "confirmed-unrecorded-after-start-up-recovery", fmt.Sprintf("%s: positive answer to the start-up recovery poll, source file gone, but the queue cache on disk still says not done (stop at the %d. %s)", name, sc.StopNth, sc.Kind))
		break
	}
	res.Count("restart_stops", 1)
	res.Count("restart_stop_actions_seen", int64(seen))
	if seen >= sc.StopNth {
		res.NonTrivial(fmt.Sprintf("c16r/%d/%s/%d/%d/%v", len(sc.Files), sc.Kind, sc.StopNth, sc.Conf.PollMax, sc.Conf.Tags[0].Delete))
	}
	res.Sample(map[string]any{"files": len(sc.Files), "stop_kind": sc.Kind, "nth": sc.StopNth})
}
