module verif/harness

go 1.25.0

require (
	github.com/alecthomas/units v0.0.0-20240927000941-0f3dac36c52b
	github.com/arm-doe/sts v0.0.0
)

require (
	github.com/golang-module/carbon/v2 v2.3.8 // indirect
	go.bryk.io/pkg v0.0.0-20250411182835-130bbccf42ad // indirect
	gopkg.in/yaml.v2 v2.4.0 // indirect
)

replace github.com/arm-doe/sts => /repo
