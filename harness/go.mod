module verif/harness

go 1.25.0

require (
	github.com/alecthomas/units v0.0.0-20240927000941-0f3dac36c52b
	github.com/arm-doe/sts v0.0.0
	gopkg.in/yaml.v2 v2.4.0
)

require (
	github.com/golang-module/carbon/v2 v2.3.8 // indirect
	github.com/quic-go/qpack v0.6.0 // indirect
	github.com/quic-go/quic-go v0.60.0 // indirect
	go.bryk.io/pkg v0.0.0-20250411182835-130bbccf42ad // indirect
	golang.org/x/crypto v0.52.0 // indirect
	golang.org/x/net v0.55.0 // indirect
	golang.org/x/sys v0.45.0 // indirect
	golang.org/x/text v0.37.0 // indirect
)

replace github.com/arm-doe/sts => /repo
