package harness

import "testing"

func TestEngine(t *testing.T) { RunEngine(t) }
