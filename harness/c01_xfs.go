package harness

import (
	"fmt"
	"math/rand"
	"os"
	"path/filepath"
	"strings"
	"sync"
	"syscall"
	"testing/synctest"
	"time"

	"github.com/arm-doe/sts"
	stslog "github.com/arm-doe/sts/log"
	"github.com/arm-doe/sts/stage"
	"github.com/arm-doe/sts/zzverif/vfs"
)

// C01 (cross-file-system put-away) - staging area and final directory on DIFFERENT file
// systems (work directory vs. /dev/shm), so that the last step of a delivery is not a
// rename but fileutil.Move's copy + remove + rename; for some files the copy hits a full
// disk once (the temporary name in the final directory is made a link to /dev/full just
// before it is created: open succeeds, the first write fails with ENOSPC) and the disk
// has room again at the next attempt.
//
// Oracle: whatever appears under a final name (and whatever the Dispatcher is handed)
// is byte-identical to the version sent, is a regular file, and the receive log carries
// that version's hash; a file whose copy failed is delivered intact by a later attempt
// (bounded: 10 virtual minutes) and its validated body is not lost in between.

type c01xFile struct {
	Name  string `json:"name"`
	Size  int    `json:"size"`
	Parts int    `json:"parts"`
	Fault bool   `json:"copy_hits_full_disk_once"`
}

type c01xScenario struct {
	Files []*c01xFile `json:"files"`
	Note  string      `json:"note,omitempty"`
}

func otherFS(work string) string {
	cands := []string{"/dev/shm", "/run/shm"}
	if x := os.Getenv("VERIF_XFS"); x != "" {
		cands = []string{x} // made (and removed) by the check driver
	}
	for _, cand := range cands {
		var a, b syscall.Stat_t
		if syscall.Stat(cand, &a) != nil || syscall.Stat(work, &b) != nil || a.Dev == b.Dev {
			continue
		}
		p := filepath.Join(cand, fmt.Sprintf("verif-c01x-%d", os.Getpid()))
		if os.MkdirAll(p, 0o755) == nil {
			return p
		}
	}
	return ""
}

func runC01XFS(c *Ctx, prop string) {
	n := c.N(120, 3000)
	other := ""
	for i := 0; i < n; i++ {
		idx := 6_000_000 + i
		if !c.Mine(idx) {
			continue
		}
		if other == "" {
			if other = otherFS(c.Work); other == "" {
				c.Res.Count("cross_fs_unavailable", 1)
				return
			}
			defer os.RemoveAll(other)
		}
		rng := c.Rng(idx)
		sc := &c01xScenario{}
		dir := filepath.Join(c.Work, fmt.Sprintf("c01x-%d", idx))
		fin := filepath.Join(other, fmt.Sprintf("f-%d", idx))
		c.Guard(idx, sc, func() {
			bubble(c.T, func() { c01XFSRun(c, prop, idx, rng, sc, dir, fin) })
		})
		os.RemoveAll(dir)
		os.RemoveAll(fin)
	}
}

func c01XFSRun(c *Ctx, prop string, idx int, rng *rand.Rand, sc *c01xScenario, dir, fin string) {
	res := c.Res
	res.Eval()
	viol := func(clause, fp, detail string) {
		res.Violate(Violation{Clause: clause, Fingerprint: prop + "/" + fp, Detail: detail, Scenario: sc, Index: idx})
	}
	stageDir := filepath.Join(dir, "stage", "src")
	logDir := filepath.Join(dir, "logs", "src")
	finalDir := filepath.Join(fin, "final", "src")
	for _, d := range []string{stageDir, logDir, finalDir} {
		_ = os.MkdirAll(d, 0o755)
	}
	var mu sync.Mutex
	faultFor := map[string]bool{} // final temporary names whose creation is to hit the full disk
	linked := map[string]bool{}   // links to /dev/full currently in place
	fired := 0
	hook := func(ev *vfs.Event) error {
		mu.Lock()
		defer mu.Unlock()
		switch {
		case ev.Op == vfs.OpCreate && faultFor[ev.Path]:
			delete(faultFor, ev.Path)
			_ = os.Remove(ev.Path)
			if os.Symlink("/dev/full", ev.Path) == nil {
				linked[ev.Path] = true
				fired++
			}
		case ev.Op == vfs.OpRename && linked[ev.Path2]:
			// the next attempt begins (rename stage -> final temporary): room again
			if fi, err := os.Lstat(ev.Path2); err == nil && fi.Mode()&os.ModeSymlink != 0 {
				_ = os.Remove(ev.Path2)
			}
			delete(linked, ev.Path2)
		}
		return nil
	}
	d1 := &vfs.Domain{Root: dir + string(os.PathSeparator), Before: hook}
	d2 := &vfs.Domain{Root: fin + string(os.PathSeparator), Before: hook}
	vfs.Register(d1)
	vfs.Register(d2)
	defer vfs.Unregister(d1)
	defer vfs.Unregister(d2)
	seq := 0
	disp := &recDispatcher{final: finalDir, seq: &seq}
	lg := &recvLogger{inner: stslog.NewFileIO(logDir, nil, nil, false), seq: &seq}
	st := stage.New("src", stageDir, finalDir, lg, disp, nil)
	st.Recover()
	ftime := time.Now().Add(-time.Hour)
	nfiles := 1 + rng.Intn(3)
	datas := map[string][]byte{}
	for f := 0; f < nfiles; f++ {
		xf := &c01xFile{Name: fmt.Sprintf("d%d/x%02d.dat", f%2, f), Size: 1 + rng.Intn(70000), Parts: 1 + rng.Intn(3), Fault: rng.Intn(2) == 0}
		if rng.Intn(4) == 0 {
			xf.Size = 1 + rng.Intn(40)
		}
		sc.Files = append(sc.Files, xf)
		data := randBytes(rng, int64(xf.Size))
		datas[xf.Name] = data
		if xf.Fault {
			mu.Lock()
			faultFor[filepath.Join(finalDir, xf.Name)+".lck"] = true
			mu.Unlock()
		}
		hash := md5hex(data)
		step := xf.Size / xf.Parts
		if step == 0 {
			xf.Parts, step = 1, xf.Size
		}
		for k := 0; k < xf.Parts; k++ {
			b, e := k*step, (k+1)*step
			if k == xf.Parts-1 {
				e = xf.Size
			}
			d := &desc{Name: xf.Name, Hash: hash, Size: int64(xf.Size), Time: ftime, Beg: int64(b), End: int64(e), Send: int64(xf.Size)}
			st.Prepare([]sts.Binned{d})
			if err := st.Receive(d.partial("src"), &chunkyReader{data: data[b:e], rng: rng, stop: -1}); err != nil {
				res.Inconc("receive failed: " + err.Error())
				return
			}
		}
	}
	// bounded progress: validation, log, copy; a failed copy is retried
	for k := 0; k < 120; k++ {
		synctest.Wait()
		time.Sleep(5 * time.Second)
	}
	synctest.Wait()
	logged := map[string]bool{}
	for _, l := range lg.Recs() {
		logged[l.Name+"|"+l.Hash] = true
	}
	for _, ev := range disp.Events() {
		want, ok := datas[ev.Rel]
		if !ok || ev.MD5 != md5hex(want) {
			viol("delivered-bytes-identical", "xfs-dispatched-wrong-bytes", fmt.Sprintf("the Dispatcher was handed %s with md5 %s (%d bytes); the file sent has md5 %s (%d bytes)", ev.Rel, ev.MD5, ev.Size, md5hex(want), len(want)))
		}
	}
	// a positive poll answer means: a validated copy is durably held (C02)
	for _, xf := range sc.Files {
		code := st.GetFileStatus(xf.Name, ftime)
		res.Count(fmt.Sprintf("xfs_poll_answer_%d", code), 1)
		if code != sts.ConfirmPassed && code != sts.ConfirmWaiting {
			continue
		}
		want := md5hex(datas[xf.Name])
		held := false
		for _, p := range []string{filepath.Join(finalDir, xf.Name), filepath.Join(stageDir, xf.Name+".wait")} {
			if fi, err := os.Lstat(p); err == nil && fi.Mode().IsRegular() {
				if b, err := os.ReadFile(p); err == nil && md5hex(b) == want {
					held = true
				}
			}
		}
		if !held {
			viol("positive-answer-needs-validated-copy", "xfs-positive-answer-without-copy", fmt.Sprintf("the poll for %s answers %d, but neither the final directory nor the staging area holds a copy with its hash (copy fault injected: %v)", xf.Name, code, xf.Fault))
		}
	}
	for _, xf := range sc.Files {
		p := filepath.Join(finalDir, xf.Name)
		want := datas[xf.Name]
		fi, err := os.Lstat(p)
		staged := []string{}
		_ = filepath.Walk(stageDir, func(sp string, info os.FileInfo, err error) error {
			if err == nil && !info.IsDir() && strings.HasPrefix(filepath.Base(sp), filepath.Base(xf.Name)) {
				staged = append(staged, filepath.Base(sp))
			}
			return nil
		})
		switch {
		case err != nil:
			viol("delivered-within-bound", "xfs-not-delivered", fmt.Sprintf("%s (copy fault: %v) is not in the final directory 10 virtual minutes after it was received completely; staged: %v", xf.Name, xf.Fault, staged))
		case fi.Mode()&os.ModeSymlink != 0 || !fi.Mode().IsRegular():
			tgt, _ := os.Readlink(p)
			viol("delivered-bytes-identical", "xfs-final-not-a-regular-file", fmt.Sprintf("%s in the final directory is not a regular file (mode %v, link target %q); the validated body in staging: %v", xf.Name, fi.Mode(), tgt, staged))
		default:
			got, _ := os.ReadFile(p)
			if md5hex(got) != md5hex(want) {
				viol("delivered-bytes-identical", "xfs-final-wrong-bytes", fmt.Sprintf("%s in the final directory has %d bytes, md5 %s; the version sent (and logged: %v) has %d bytes, md5 %s; staged: %v", xf.Name, len(got), md5hex(got), logged[xf.Name+"|"+md5hex(want)], len(want), md5hex(want), staged))
			} else if !logged[xf.Name+"|"+md5hex(want)] {
				viol("logged-with-its-hash", "xfs-delivered-unlogged", fmt.Sprintf("%s delivered but the receive log has no record with its hash", xf.Name))
			}
		}
	}
	res.Count("cross_fs_histories", 1)
	res.Count("cross_fs_copy_faults_fired", int64(fired))
	if fired > 0 {
		res.NonTrivial(fmt.Sprintf("c01x/%v", func() []string {
			var o []string
			for _, f := range sc.Files {
				o = append(o, fmt.Sprintf("%s:%d:%d:%v", f.Name, f.Size, f.Parts, f.Fault))
			}
			return o
		}()))
	}
	res.Sample(sc)
}
