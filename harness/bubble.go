package harness

import (
	"fmt"
	"strings"
	"testing"
	"testing/synctest"
	"time"
)

// bubble runs f inside a synctest bubble.  Goroutines that the code under test
// leaves durably blocked (Stage workers, logger goroutines) make synctest.Test
// panic with a "deadlock" message when f returns; that is expected and swallowed.
// Any other panic is re-raised.
func bubble(t *testing.T, f func()) {
	defer func() {
		if p := recover(); p != nil {
			msg := fmt.Sprint(p)
			if strings.Contains(msg, "deadlock: main bubble goroutine has exited") {
				return
			}
			panic(p)
		}
	}()
	synctest.Test(t, func(t *testing.T) {
		// the bubble clock starts at 2000-01-01; sts treats dates before 2010 as
		// implausible in one place (predecessor look-back), so move to 2021 first
		time.Sleep(time.Until(bubbleEpoch))
		f()
	})
}

var bubbleEpoch = time.Date(2021, 1, 1, 0, 0, 0, 0, time.UTC)
