package harness

import (
	"fmt"
	"strings"
	"testing"
	"testing/synctest"
)

// bubble runs f inside a synctest bubble.  Goroutines that the code under test
// leaves durably blocked (Stage workers, logger goroutines) make synctest.Test
// panic with a "deadlock" message when f returns; that is expected and swallowed.
// Any other panic is re-raised.
func bubble(t *testing.T, f func()) {
	defer func() {
		if p := recover(); p != nil {
			msg := fmt.Sprint(p)
			if strings.Contains(msg, "deadlock: main bubble goroutine has exited") {
				return
			}
			panic(p)
		}
	}()
	synctest.Test(t, func(t *testing.T) { f() })
}
