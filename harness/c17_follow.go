package harness

import (
	"fmt"
	"math/rand"
	"os"
	"path/filepath"
	"regexp"
	"sort"
	"strings"
	"time"

	"github.com/arm-doe/sts"
	"github.com/arm-doe/sts/store"
)

// C17 (c) - scans that FOLLOW symbolic links (dirs.out-follow): directories that are
// reachable under more than one name (an alias link next to the real directory, a link
// into a sub-directory, a link back to an ancestor, a link to a directory outside the
// outgoing tree), where some of the names are ineligible (hidden link, link under an
// ignored directory) and others are not.
//
// Oracle (reference reachability over the link graph + the eligibility predicate): every
// real file that is eligible by its own attributes and can be reached through at least
// one path whose directories all pass the filter is returned by the scan EXACTLY once,
// under a name that is such a path; nothing else is returned.

type c17fScenario struct {
	Dirs    []string    `json:"dirs"`
	Files   []c17Node   `json:"files"`
	Links   [][2]string `json:"links"` // link path (relative to the outgoing directory) -> target
	MinAge  float64     `json:"min_age_s"`
	Hidden  bool        `json:"include_hidden"`
	Ignore  []string    `json:"ignore"`
	Include []string    `json:"include"`
}

func runC17Follow(c *Ctx) {
	n := c.N(600, 20000)
	for i := 0; i < n; i++ {
		idx := 2_000_000 + i
		if !c.Mine(idx) {
			continue
		}
		rng := c.Rng(idx)
		sc := &c17fScenario{}
		dir := filepath.Join(c.Work, fmt.Sprintf("c17f-%d", idx))
		c.Guard(idx, sc, func() {
			bubble(c.T, func() { c17FollowRun(c, idx, rng, sc, dir) })
		})
		os.RemoveAll(dir)
	}
}

func c17FollowRun(c *Ctx, idx int, rng *rand.Rand, sc *c17fScenario, dir string) {
	res := c.Res
	res.Eval()
	viol := func(clause, fp, detail string) {
		res.Violate(Violation{Clause: clause, Fingerprint: "C17/" + fp, Detail: detail, Scenario: sc, Index: idx})
	}
	root := filepath.Join(dir, "out")
	ext := filepath.Join(dir, "elsewhere")
	_ = os.MkdirAll(root, 0o755)
	_ = os.MkdirAll(ext, 0o755)
	root, _ = filepath.EvalSymlinks(root)
	ext, _ = filepath.EvalSymlinks(ext)
	now := time.Now()
	sc.MinAge = []float64{0, 0, 30}[rng.Intn(3)]
	sc.Hidden = rng.Intn(5) == 0
	if rng.Intn(2) == 0 {
		sc.Ignore = [][]string{{`\.tmp$`}, {`^skip/`}, {`^skip$`, `\.tmp$`}}[rng.Intn(3)]
	}
	if rng.Intn(4) == 0 {
		sc.Include = []string{`\.dat$`}
	}
	// real directories and files
	dirs := []string{"real", "real/sub", "other", "skip", "other/deep"}
	for _, d := range dirs {
		if rng.Intn(5) != 0 || d == "real" {
			_ = os.MkdirAll(filepath.Join(root, d), 0o755)
		}
	}
	names := []string{"f1.dat", "f2.nc", "x.tmp", ".dot.dat", "g.dat.lck", "i.dat"}
	ages := []float64{0, 10, 31, 5000}
	put := func(abs, rel string) {
		nd := c17Node{Path: rel, Kind: "file", Size: 1 + rng.Intn(40), AgeSec: ages[rng.Intn(len(ages))]}
		if rng.Intn(8) == 0 {
			nd.Size = 0
		}
		_ = os.WriteFile(abs, randBytes(rng, int64(nd.Size)), 0o644)
		t := now.Add(-time.Duration(nd.AgeSec * float64(time.Second)))
		_ = os.Chtimes(abs, t, t)
		sc.Files = append(sc.Files, nd)
	}
	_ = filepath.Walk(root, func(p string, info os.FileInfo, err error) error {
		if err == nil && info.IsDir() {
			rel, _ := filepath.Rel(root, p)
			if rel != "." {
				sc.Dirs = append(sc.Dirs, rel)
			}
			for _, nm := range names {
				if rng.Intn(3) == 0 {
					put(filepath.Join(p, nm), filepath.Join(rel, nm))
				}
			}
		}
		return nil
	})
	for _, nm := range []string{"e1.dat", "e2.nc"} {
		if rng.Intn(2) == 0 {
			put(filepath.Join(ext, nm), "<elsewhere>/"+nm)
		}
	}
	// links to directories
	exists := func(rel string) bool { _, err := os.Stat(filepath.Join(root, rel)); return err == nil }
	link := func(at, target string) {
		lp := filepath.Join(root, at)
		if _, err := os.Lstat(lp); err == nil {
			return
		}
		_ = os.MkdirAll(filepath.Dir(lp), 0o755)
		if os.Symlink(target, lp) == nil {
			lutimes(lp, now.Add(-time.Hour))
			sc.Links = append(sc.Links, [2]string{at, target})
		}
	}
	cands := [][2]string{
		{".current", "real"},      // hidden alias next to the real directory
		{"skip/alias", "../real"}, // alias under a directory that may be ignored
		{"zz_alias", "real"},      // eligible alias
		{"aa_alias", "real"},      // eligible alias with a name that sorts first
		{"deep", "real/sub"},      // link into a sub-directory
		{"real/sub/back", ".."},   // link back to an ancestor
		{"other/.hid_to_sub", "../real/sub"},
		{"ext", ext}, // directory outside the outgoing tree
		{".ext_hidden", ext},
		{"other/deep/up", "../.."}, // link to the outgoing directory's child 'other' parent = root/other/.. = root
	}
	for _, cd := range cands {
		if rng.Intn(3) == 0 {
			if cd[0] == "skip/alias" && !exists("skip") {
				continue
			}
			if strings.HasPrefix(cd[0], "real/sub/") && !exists("real/sub") {
				continue
			}
			if strings.HasPrefix(cd[0], "other/deep/") && !exists("other/deep") {
				continue
			}
			if strings.HasPrefix(cd[0], "other/") && !exists("other") {
				continue
			}
			link(cd[0], cd[1])
		}
	}
	st := &store.Local{Root: root, MinAge: time.Duration(sc.MinAge * float64(time.Second)), IncludeHidden: sc.Hidden, FollowSymlinks: true}
	for _, p := range sc.Ignore {
		st.Ignore = append(st.Ignore, regexp.MustCompile(p))
	}
	for _, p := range sc.Include {
		st.Include = append(st.Include, regexp.MustCompile(p))
	}
	st.AddStandardIgnore()
	files, _, err := st.Scan(func(f sts.File) bool { return f.GetSize() > 0 })
	if err != nil {
		viol("scan-succeeds", "follow-scan-error", err.Error())
		return
	}
	matchAny := func(pats []string, s string) bool {
		for _, p := range pats {
			if ok, _ := regexp.MatchString(p, s); ok {
				return true
			}
		}
		return false
	}
	dirOK := func(rel string) bool { // may the scan descend into a directory reached under this name?
		if !sc.Hidden && strings.HasPrefix(filepath.Base(rel), ".") {
			return false
		}
		return !matchAny(sc.Ignore, rel)
	}
	fileOK := func(rel string, info os.FileInfo) bool {
		if !sc.Hidden && strings.HasPrefix(filepath.Base(rel), ".") {
			return false
		}
		if matchAny(sc.Ignore, rel) || strings.HasSuffix(rel, ".lck") || filepath.Base(rel) == ".disabled" {
			return false
		}
		if len(sc.Include) > 0 && !matchAny(sc.Include, rel) {
			return false
		}
		if info.Size() == 0 {
			return false
		}
		return now.Sub(info.ModTime()) >= time.Duration(sc.MinAge*float64(time.Second))
	}
	// reference reachability: every (name path -> real file) pair over eligible directory
	// names, without passing through the same real directory twice on one path
	access := map[string][]string{} // real file -> eligible names
	var explore func(rel, real string, onPath map[string]bool, depth int)
	explore = func(rel, real string, onPath map[string]bool, depth int) {
		if depth > 8 || onPath[real] {
			return
		}
		onPath[real] = true
		defer delete(onPath, real)
		ents, err := os.ReadDir(real)
		if err != nil {
			return
		}
		for _, e := range ents {
			nrel := filepath.Join(rel, e.Name())
			nreal, err := filepath.EvalSymlinks(filepath.Join(real, e.Name()))
			if err != nil {
				continue
			}
			info, err := os.Lstat(nreal)
			if err != nil {
				continue
			}
			if info.IsDir() {
				if dirOK(nrel) {
					explore(nrel, nreal, onPath, depth+1)
				}
				continue
			}
			if fileOK(nrel, info) {
				access[nreal] = append(access[nreal], nrel)
			}
		}
	}
	explore("", root, map[string]bool{}, 0)
	gotReal := map[string][]string{}
	for _, f := range files {
		real, err := filepath.EvalSymlinks(filepath.Join(root, f.GetName()))
		if err != nil {
			viol("returned-names-resolve", "follow-unresolvable-name", fmt.Sprintf("the scan returned %s, which does not resolve", f.GetName()))
			continue
		}
		gotReal[real] = append(gotReal[real], f.GetName())
		ok := false
		for _, a := range access[real] {
			if a == f.GetName() {
				ok = true
			}
		}
		if !ok {
			viol("eligible-iff-found", "follow-ineligible-found", fmt.Sprintf("the scan (following links) returned %s (real file %s), which is not an eligible name of an eligible file; eligible names: %v", f.GetName(), strings.TrimPrefix(real, dir), access[real]))
		}
	}
	var reals []string
	for r := range access {
		reals = append(reals, r)
	}
	sort.Strings(reals)
	aliased := 0
	for _, r := range reals {
		if len(access[r]) > 1 {
			aliased++
		}
		switch n := len(gotReal[r]); {
		case n == 0:
			viol("eligible-iff-found", "follow-eligible-not-found", fmt.Sprintf("%s is eligible and reachable under the eligible name(s) %v, but the scan (following links) returned it under none; links: %v", strings.TrimPrefix(r, dir), access[r], sc.Links))
		case n > 1:
			viol("each-file-once", "follow-found-twice", fmt.Sprintf("%s was returned %d times by one scan: %v", strings.TrimPrefix(r, dir), n, gotReal[r]))
		}
	}
	res.Count("follow_trees", 1)
	res.Count("follow_links", int64(len(sc.Links)))
	res.Count("follow_files_reachable_under_several_names", int64(aliased))
	res.Count("follow_eligible_files", int64(len(reals)))
	if len(sc.Links) > 0 && len(reals) > 0 {
		res.NonTrivial(fmt.Sprintf("c17f/%v/%v/%v/%v/%v/%v", sc.Dirs, sc.Files, sc.Links, sc.MinAge, sc.Hidden, sc.Ignore))
	}
	res.Sample(sc)
}
