package harness

import (
	"fmt"
	"math/rand"
	"os"
	"path/filepath"
	"sync"
	"testing/synctest"
	"time"

	"github.com/arm-doe/sts"
)

// C04 — files of a group are delivered in order; none before its predecessor.
//
// Receiver monitor: a real Stage is fed generated predecessor graphs in PRNG
// arrival orders under a virtual clock (so the 10 s retry and the 30 min
// cleaner fire by themselves); the oracle reads the order of delivery / log
// events from the Dispatcher and ReceiveLogger taps (one shared sequence
// counter).  End-to-end monitor: order of deliveries per group in W-syn runs.

func init() { register("C04", runC04) }

type c04File struct {
	Name    string `json:"name"`
	Prev    string `json:"prev"`
	Size    int64  `json:"size"`
	Kind    string `json:"kind,omitempty"` // missing-prev | logged-earlier | fail-first | cycle | self
	Arrive  int    `json:"arrive"`         // arrival rank
	data    []byte
	hash    string
	onCycle bool
}

type c04Scenario struct {
	Shape    string     `json:"shape"`
	Files    []*c04File `json:"files"`
	Restarts []int      `json:"restarts_after_arrival,omitempty"`
	Conc     int        `json:"concurrent_senders"`
	GapHours int        `json:"hours_since_earlier_instance,omitempty"`
	GapMin   int        `json:"minutes_since_earlier_instance,omitempty"`
	StalledH int        `json:"stalled_partial_of_another_file_hours_before,omitempty"`
	Note     string     `json:"note,omitempty"`
}

func runC04(c *Ctx) {
	runC04Reversion(c)
	n := c.N(400, 10000)
	for i := 0; i < n; i++ {
		if !c.Mine(i) {
			continue
		}
		rng := c.Rng(i)
		sc := &c04Scenario{}
		dir := filepath.Join(c.Work, fmt.Sprintf("c04-%d", i))
		c.Guard(i, sc, func() {
			bubble(c.T, func() { c04Run(c, i, rng, sc, dir) })
		})
		os.RemoveAll(dir)
	}
	// end-to-end order monitor
	m := c.N(150, 3000)
	for i := 0; i < m; i++ {
		idx := 1_000_000 + i
		if !c.Mine(idx) {
			continue
		}
		rng := c.Rng(idx)
		sp := genSpec(rng, "C03", idx)
		sp.Mutations = nil
		sp.Conf.Tags[0].Order = []string{sts.OrderFIFO, sts.OrderLIFO, sts.OrderAlpha}[rng.Intn(3)]
		sp.Conf.Tags[0].Delete = false
		dir := filepath.Join(c.Work, fmt.Sprintf("c04e-%d", idx))
		c.Guard(idx, sp, func() {
			bubble(c.T, func() { c04E2E(c, idx, rng.Int63(), sp, dir) })
		})
		os.RemoveAll(dir)
	}
}

func c04Run(c *Ctx, idx int, rng *rand.Rand, sc *c04Scenario, dir string) {
	res := c.Res
	res.Eval()
	viol := func(clause, fp, detail string) {
		res.Violate(Violation{Clause: clause, Fingerprint: "C04/" + fp, Detail: detail, Scenario: sc, Index: idx})
	}
	time.Sleep(time.Duration(rng.Intn(86400)) * time.Second) // any time of day
	rs := newRecvSide(dir, false)
	defer rs.close()
	rs.restamp()

	// ---- generate the predecessor graph
	shapes := []string{"chain", "long-chain", "forest", "prefix-names", "cycle2", "cycle3", "self", "missing-prev", "logged-earlier", "fail-first", "mixed"}
	sc.Shape = shapes[rng.Intn(len(shapes))]
	var files []*c04File
	add := func(name, prev, kind string) *c04File {
		f := &c04File{Name: name, Prev: prev, Kind: kind, Size: int64(1 + rng.Intn(400))}
		f.data = randBytes(rng, f.Size)
		f.hash = md5hex(f.data)
		files = append(files, f)
		return f
	}
	chain := func(prefix string, n int, first string) {
		prev := first
		for k := 0; k < n; k++ {
			name := fmt.Sprintf("%s.%03d", prefix, k)
			add(name, prev, "")
			prev = name
		}
	}
	var earlier []*c04File // delivered by an earlier instance
	switch sc.Shape {
	case "chain":
		chain("g/a", 2+rng.Intn(8), "")
	case "long-chain":
		chain("g/a", 26+rng.Intn(18), "") // longer than the validator pool
	case "forest":
		for t := 0; t < 2+rng.Intn(3); t++ {
			chain(fmt.Sprintf("d%d/t", t), 1+rng.Intn(6), "")
		}
	case "prefix-names":
		// names that are prefixes / substrings of one another
		names := []string{"a", "a.b", "a.b.c", "xa", "a.bx", "dir/a", "dir/a.b"}
		rng.Shuffle(len(names), func(i, j int) { names[i], names[j] = names[j], names[i] })
		k := 3 + rng.Intn(len(names)-3)
		prev := ""
		for _, nme := range names[:k] {
			add(nme, prev, "")
			prev = nme
		}
		// one file waits for a name that is only a substring of delivered names
		add("waiter", names[k-1]+"x", "missing-prev")
	case "cycle2":
		a := add("c/x", "c/y", "cycle")
		b := add("c/y", "c/x", "cycle")
		a.onCycle, b.onCycle = true, true
		chain("c/z", 1+rng.Intn(3), "c/x")
	case "cycle3":
		a := add("c/x", "c/z", "cycle")
		b := add("c/y", "c/x", "cycle")
		d := add("c/z", "c/y", "cycle")
		a.onCycle, b.onCycle, d.onCycle = true, true, true
	case "self":
		add("s/a", "s/a", "self")
		chain("s/b", 1+rng.Intn(3), "s/a")
	case "missing-prev":
		chain("m/a", 1+rng.Intn(4), "m/never-sent")
		files[0].Kind = "missing-prev"
	case "logged-earlier":
		p := &c04File{Name: "e/old", Size: 50, Kind: "logged-earlier"}
		p.data = randBytes(rng, 50)
		p.hash = md5hex(p.data)
		earlier = append(earlier, p)
		chain("e/new", 1+rng.Intn(4), "e/old")
	case "fail-first":
		chain("f/a", 2+rng.Intn(5), "")
		files[rng.Intn(len(files))].Kind = "fail-first"
	default:
		chain("x/a", 2+rng.Intn(6), "")
		chain("x/b", 1+rng.Intn(4), "x/a.000")
		if rng.Intn(2) == 0 {
			files[rng.Intn(len(files))].Kind = "fail-first"
		}
	}
	// arrival order
	order := rng.Perm(len(files))
	for rank, fi := range order {
		files[fi].Arrive = rank
	}
	sc.Files = files
	sc.Conc = 1 + rng.Intn(3)
	byName := map[string]*c04File{}
	for _, f := range files {
		byName[f.Name] = f
	}
	// files transitively behind a cycle or a missing predecessor can never be released in order
	blocked := map[string]string{}
	for _, f := range files {
		seen := map[string]bool{}
		cur := f
		for cur != nil && cur.Prev != "" && cur.Prev != cur.Name && !seen[cur.Name] {
			seen[cur.Name] = true
			nxt := byName[cur.Prev]
			if nxt == nil {
				isEarlier := false
				for _, e := range earlier {
					if e.Name == cur.Prev {
						isEarlier = true
					}
				}
				if !isEarlier {
					blocked[f.Name] = "missing"
				}
				break
			}
			if nxt.onCycle && !f.onCycle {
				blocked[f.Name] = "behind-cycle"
			}
			cur = nxt
		}
	}

	ftime := time.Now().Add(-time.Hour)
	send := func(gk *recvSide, f *c04File, data []byte, hash string) error {
		d := &desc{Name: f.Name, Prev: f.Prev, Hash: hash, Size: f.Size, Time: ftime, Beg: 0, End: f.Size, Send: f.Size}
		if f.Size > 10 && rng.Intn(3) == 0 {
			// two parts
			mid := f.Size / 2
			d1 := *d
			d1.End = mid
			d2 := *d
			d2.Beg = mid
			gk.Stage.Prepare([]sts.Binned{&d1, &d2})
			if err := gk.Stage.Receive(d1.partial("src"), &chunkyReader{data: data[:mid], rng: rng, stop: -1}); err != nil {
				return err
			}
			return gk.Stage.Receive(d2.partial("src"), &chunkyReader{data: data[mid:], rng: rng, stop: -1})
		}
		gk.Stage.Prepare([]sts.Binned{d})
		return gk.Stage.Receive(d.partial("src"), &chunkyReader{data: data, rng: rng, stop: -1})
	}

	// ---- phase 0: an earlier instance delivers the "logged-earlier" predecessors
	stalledVariant := len(earlier) > 0 && rng.Intn(2) == 0
	if stalledVariant {
		// a transfer of another file stalled some hours before (its companion stays in the
		// staging area); the new instance's memory then reaches back past it, and the
		// predecessor was delivered only minutes to hours before the restart - the same
		// calendar day, or the one before, at any time of day
		sd := randBytes(rng, 300)
		d := &desc{Name: "z/stalled.dat", Hash: md5hex(sd), Size: 300, Time: time.Now().Add(-time.Hour), Beg: 0, End: 100, Send: 300}
		rs.Stage.Prepare([]sts.Binned{d})
		_ = rs.Stage.Receive(d.partial("src"), &chunkyReader{data: sd[:100], rng: rng, stop: -1})
		rs.restamp()
		sc.StalledH = 1 + rng.Intn(40)
		time.Sleep(time.Duration(sc.StalledH)*time.Hour + time.Duration(rng.Intn(3600))*time.Second)
	}
	for _, e := range earlier {
		_ = send(rs, e, e.data, e.hash)
	}
	if stalledVariant {
		synctest.Wait()
		sc.GapMin = 1 + rng.Intn(600)
		time.Sleep(time.Duration(sc.GapMin) * time.Minute)
		ftime = time.Now().Add(-time.Duration(1+rng.Intn(50)) * time.Second)
		rs.restamp()
		rs.reboot(false)
		rs.Stage.Recover()
	} else if len(earlier) > 0 {
		// possibly beyond the 24 h cache window; up to 17 days, so that the predecessor's
		// record is found only after many of the 10 s look-back retries (24 h further each)
		gap := 1 + rng.Intn(72)
		if rng.Intn(2) == 0 {
			gap = []int{80, 100, 150, 200, 300, 400}[rng.Intn(6)]
		}
		sc.GapHours = gap
		time.Sleep(time.Duration(gap) * time.Hour)
		// the files of this instance were written recently: their own time must not
		// reach back to the earlier instance's deliveries (a file time older than those
		// makes the receiver load that part of the log at once)
		ftime = time.Now().Add(-time.Duration(1+rng.Intn(50)) * time.Minute)
		rs.restamp()
		rs.reboot(false)
		rs.Stage.Recover()
	}
	firstSeq := rs.seq

	// ---- phase 1: arrivals
	type pending struct {
		f *c04File
	}
	var mu sync.Mutex
	restartAfter := map[int]bool{}
	if rng.Intn(3) == 0 {
		restartAfter[rng.Intn(len(files))] = true
	}
	arrived := 0
	var allDel []delivered
	var allLog []loggedRec
	collect := func() {
		allDel = append(allDel, rs.Disp.Events()...)
		allLog = append(allLog, rs.Log.Recs()...)
	}
	for _, fi := range order {
		f := files[fi]
		time.Sleep(time.Duration(rng.Intn(20000)) * time.Millisecond)
		if f.Kind == "fail-first" {
			// first transmission is damaged: validation fails, the sender re-sends later
			bad := append([]byte{}, f.data...)
			bad[rng.Intn(len(bad))] ^= 0x55
			_ = send(rs, f, bad, f.hash)
			synctest.Wait()
			if st := rs.Stage.GetFileStatus(f.Name, ftime); st != sts.ConfirmFailed && st != sts.ConfirmNone {
				viol("failed-validation-reported", "corrupt-not-failed", fmt.Sprintf("%s arrived corrupted but is reported as %d", f.Name, st))
			}
		}
		mu.Lock()
		arrived++
		mu.Unlock()
		if f.Kind != "fail-first" {
			if err := send(rs, f, f.data, f.hash); err != nil {
				res.Inconc("send failed: " + err.Error())
				return
			}
		}
		rs.restamp()
		if restartAfter[f.Arrive] {
			synctest.Wait()
			collect()
			sc.Restarts = append(sc.Restarts, f.Arrive)
			rs.reboot(false)
			rs.Stage.Recover()
			res.Count("receiver_restarts", 1)
		}
	}
	// re-send the ones that failed first (after everything else arrived)
	for _, f := range files {
		if f.Kind == "fail-first" {
			time.Sleep(time.Duration(5+rng.Intn(60)) * time.Second)
			_ = send(rs, f, f.data, f.hash)
		}
	}
	synctest.Wait()
	// held files are reported as waiting
	heldSeen := 0
	for _, f := range files {
		if _, err := os.Stat(filepath.Join(rs.StageDir, f.Name+".wait")); err == nil {
			heldSeen++
			if st := rs.Stage.GetFileStatus(f.Name, ftime); st != sts.ConfirmWaiting && st != sts.ConfirmPassed {
				viol("held-reported-waiting", "held-not-waiting", fmt.Sprintf("%s is held validated in staging but its status is %d", f.Name, st))
			} else if st == sts.ConfirmWaiting {
				res.Count("waiting_answers", 1)
			}
		}
	}
	// ---- phase 2: let the timers work (10 s retries; nothing cyclic may be released before a clean)
	time.Sleep(20 * time.Minute)
	synctest.Wait()
	beforeClean := len(append(allDel, rs.Disp.Events()...))
	_ = beforeClean
	preCleanDelivered := map[string]bool{}
	for _, d := range append(append([]delivered{}, allDel...), rs.Disp.Events()...) {
		preCleanDelivered[d.Rel] = true
	}
	for _, f := range files {
		if (f.onCycle || blocked[f.Name] != "") && preCleanDelivered[f.Name] {
			why := "lies on a predecessor cycle"
			if blocked[f.Name] != "" {
				why = "waits (transitively) for " + blocked[f.Name]
			}
			viol("held-until-predecessor", "released-without-predecessor", fmt.Sprintf("%s %s and no cleaning has run yet, but it was delivered", f.Name, why))
		}
	}
	rs.restamp()
	time.Sleep(45 * time.Minute) // the 30 min cleaner fires
	synctest.Wait()
	rs.Stage.CleanNow()
	time.Sleep(30 * time.Minute)
	synctest.Wait()
	collect()

	// ---- oracle over the event order
	delSeq := map[string]int{}
	for _, d := range allDel {
		if _, ok := delSeq[d.Rel]; !ok {
			delSeq[d.Rel] = d.Seq
		}
	}
	logSeq := map[string]int{}
	for _, l := range allLog {
		if _, ok := logSeq[l.Name]; !ok {
			logSeq[l.Name] = l.Seq
		}
	}
	_ = firstSeq
	held := 0
	for _, f := range files {
		ds, delivered := delSeq[f.Name]
		if f.Prev == "" || f.Prev == f.Name {
			if !delivered {
				viol("free-files-delivered", "undelivered-free-file", fmt.Sprintf("%s has no predecessor to wait for but was not delivered within 95 virtual minutes", f.Name))
			}
			continue
		}
		if f.onCycle {
			if !delivered {
				viol("cycles-broken-by-cleaner", "cycle-never-broken", fmt.Sprintf("%s lies on a predecessor cycle and was still not delivered after two cleanings", f.Name))
			}
			continue
		}
		if b := blocked[f.Name]; b == "missing" {
			held++
			if delivered {
				viol("held-until-predecessor", "released-without-predecessor", fmt.Sprintf("%s was delivered although its predecessor chain leads to %s, which was never delivered", f.Name, f.Prev))
			}
			continue
		} else if b == "behind-cycle" {
			// released once the cycle is broken; order against the predecessor still holds below
		}
		isEarlier := false
		for _, e := range earlier {
			if e.Name == f.Prev {
				isEarlier = true
			}
		}
		if !delivered {
			viol("released-after-predecessor", "never-released", fmt.Sprintf("%s (predecessor %s, delivered=%v) was not delivered within 95 virtual minutes after everything had arrived", f.Name, f.Prev, delSeq[f.Prev] > 0 || isEarlier))
			continue
		}
		if isEarlier {
			res.Count("released_on_log_record_of_earlier_instance", 1)
			continue
		}
		ps, pdel := delSeq[f.Prev]
		if !pdel {
			viol("held-until-predecessor", "delivered-before-predecessor", fmt.Sprintf("%s was delivered but its predecessor %s never was", f.Name, f.Prev))
			continue
		}
		// known coarse spot of the cycle breaker: it releases every file waiting
		// on a path that lies on a cycle, also files that are not on the cycle
		sfx := ""
		if pf := byName[f.Prev]; pf != nil && pf.onCycle && !f.onCycle {
			sfx = "-whose-predecessor-is-on-a-cycle"
		}
		if ps > ds {
			viol("held-until-predecessor", "delivered-before-predecessor"+sfx, fmt.Sprintf("%s (delivery event %d) was delivered before its predecessor %s (event %d)", f.Name, ds, f.Prev, ps))
		}
		if ls, ok := logSeq[f.Name]; ok && ps > ls {
			viol("held-until-predecessor", "logged-before-predecessor"+sfx, fmt.Sprintf("%s was logged as received (event %d) before its predecessor %s was delivered (event %d)", f.Name, ls, f.Prev, ps))
		}
		if f.Arrive < byName[f.Prev].Arrive {
			held++
		}
	}
	res.Count("files", int64(len(files)))
	res.Count("files_held_for_predecessor", int64(held))
	res.Count("deliveries", int64(len(allDel)))
	if held > 0 || heldSeen > 0 {
		res.NonTrivial(fmt.Sprintf("%s/%d/%v/%v", sc.Shape, len(files), order, sc.Restarts))
	}
	res.Sample(sc)
}

// c04E2E: end-to-end order.  For files x before y in the configured order of a
// group, with x already queued when y's first chunk was popped, x is delivered first.
func c04E2E(c *Ctx, idx int, seed int64, sp *e2eSpec, dir string) {
	res := c.Res
	res.Eval()
	o := e2eRun(c, seed, sp, dir)
	defer o.w.close()
	dumpOutcome(o, idx)
	w := o.w
	delSeq := map[string]int{}
	for i, d := range o.delivered {
		if _, ok := delSeq[d.Rel]; !ok {
			delSeq[d.Rel] = i + 1
		}
	}
	// position of the first pop of each file and the pushes before it
	firstPop := map[string]int{}
	pushed := map[string]int{}
	lastPrev := map[string]string{} // predecessor announced with the latest chunk of a name
	resent := map[string]bool{}     // names pushed again as a resend / resumed file (these announce the predecessor they had before, not their place in the chain)
	for _, e := range o.events {
		switch e.Kind {
		case "q_push":
			if _, ok := pushed[e.Name]; !ok {
				pushed[e.Name] = e.Seq
			}
			if e.S == "recovered" {
				resent[e.Name] = true
			}
		case "q_pop":
			if _, ok := firstPop[e.Name]; !ok {
				firstPop[e.Name] = e.Seq
			}
			lastPrev[e.Name] = e.S
		}
	}
	// does the chain of announced predecessors lead from y back to x?  If it stops
	// short at a resent file, the receiver was never told to hold y for x.
	chainBrokenAtResent := func(x, y string) bool {
		seen := map[string]bool{}
		viaResent := false
		for p := lastPrev[y]; p != "" && !seen[p]; p = lastPrev[p] {
			if p == x {
				return false
			}
			seen[p] = true
			if resent[p] {
				viaResent = true
			}
		}
		return viaResent
	}
	ord := sp.Conf.Tags[0].Order
	less := func(a, b *srcVersion, an, bn string) bool {
		switch ord {
		case sts.OrderAlpha:
			return an < bn
		case sts.OrderLIFO:
			if a.MTime.Equal(b.MTime) {
				return an < bn
			}
			return a.MTime.After(b.MTime)
		}
		if a.MTime.Equal(b.MTime) {
			return an < bn
		}
		return a.MTime.Before(b.MTime)
	}
	pairs := 0
	for _, x := range sp.Files {
		for _, y := range sp.Files {
			if x.Name == y.Name || groupOf(x.Name) != groupOf(y.Name) {
				continue
			}
			vx, vy := w.latestVersion(x.Name), w.latestVersion(y.Name)
			if !less(vx, vy, x.Name, y.Name) {
				continue
			}
			px, okx := pushed[x.Name]
			py, oky := firstPop[y.Name]
			if !okx || !oky || px > py {
				continue // x was not queued yet when y was first emitted
			}
			dx, delx := delSeq[targetName(w, x.Name)]
			dy, dely := delSeq[targetName(w, y.Name)]
			if !dely {
				continue
			}
			if !delx {
				if _, inFinal := o.final[targetName(w, x.Name)]; inFinal {
					continue // delivered, but the event was lost with a crashed receiver: order unknown
				}
			}
			pairs++
			if !delx || dx > dy {
				s := *sp
				s.Events = tailEvents(o.events, 120)
				fp := "C04/e2e-order"
				if chainBrokenAtResent(x.Name, y.Name) {
					fp = "C04/e2e-order-chain-broken-at-resent-file"
				}
				res.Violate(Violation{Clause: "group-order-end-to-end", Fingerprint: fp, Index: idx, Scenario: &s,
					Detail: fmt.Sprintf("order %q: %s precedes %s in group %s and was queued when %s was first emitted, but %s was delivered first (delivery #%d vs #%d)", ord, x.Name, y.Name, groupOf(x.Name), y.Name, y.Name, dy, dx)})
			}
		}
	}
	res.Count("ordered_pairs_checked", int64(pairs))
	res.Count("sender_crashes", int64(o.senderCrash))
	res.Count("receiver_crashes", int64(o.recvCrash))
	if pairs > 0 {
		res.NonTrivial(fmt.Sprintf("e2e/%d/%s/%v/%v/%v", len(sp.Files), ord, sp.Faults, sp.SenderCrashAt, sp.RecvCrashAt))
	}
}

// ---- a waiting file is replaced by a newer version that announces ANOTHER predecessor
//
// c (version 1) is validated and held for a; c changes at the source and version 2
// arrives announcing b (not delivered yet); then a and b arrive in either order.
// Version 2 must wait for b, whatever happens to the turn version 1 had.

type c04RevScenario struct {
	Order    []string `json:"arrival_order"`
	Restart  bool     `json:"receiver_restart_before_predecessors"`
	V2Parts  int      `json:"v2_parts"`
	SameSize bool     `json:"same_size"`
}

func runC04Reversion(c *Ctx) {
	n := c.N(60, 1500)
	for i := 0; i < n; i++ {
		idx := 2_000_000 + i
		if !c.Mine(idx) {
			continue
		}
		rng := c.Rng(idx)
		sc := &c04RevScenario{}
		dir := filepath.Join(c.Work, fmt.Sprintf("c04r-%d", idx))
		c.Guard(idx, sc, func() {
			bubble(c.T, func() { c04RevRun(c, idx, rng, sc, dir) })
		})
		os.RemoveAll(dir)
	}
}

func c04RevRun(c *Ctx, idx int, rng *rand.Rand, sc *c04RevScenario, dir string) {
	res := c.Res
	res.Eval()
	viol := func(clause, fp, detail string) {
		res.Violate(Violation{Clause: clause, Fingerprint: "C04/" + fp, Detail: detail, Scenario: sc, Index: idx})
	}
	time.Sleep(time.Duration(rng.Intn(86400)) * time.Second)
	rs := newRecvSide(dir, false)
	defer rs.close()
	ftime := time.Now().Add(-time.Duration(1+rng.Intn(50)) * time.Minute)
	mk := func(n int) []byte { return randBytes(rng, int64(n)) }
	size1 := 20 + rng.Intn(500)
	size2 := size1
	sc.SameSize = rng.Intn(2) == 0
	if !sc.SameSize {
		size2 = 20 + rng.Intn(500)
	}
	a, b, c1, c2 := mk(30+rng.Intn(200)), mk(30+rng.Intn(200)), mk(size1), mk(size2)
	sc.V2Parts = 1 + rng.Intn(2)
	send := func(name, prev string, data []byte, parts int) {
		size := int64(len(data))
		step := size / int64(parts)
		for k := 0; k < parts; k++ {
			beg, end := int64(k)*step, int64(k+1)*step
			if k == parts-1 {
				end = size
			}
			d := &desc{Name: name, Prev: prev, Hash: md5hex(data), Size: size, Time: ftime, Beg: beg, End: end, Send: size}
			rs.Stage.Prepare([]sts.Binned{d})
			_ = rs.Stage.Receive(d.partial("src"), &chunkyReader{data: data[beg:end], rng: rng, stop: -1})
		}
		rs.restamp()
		synctest.Wait()
		time.Sleep(time.Duration(1+rng.Intn(25)) * time.Second) // across the 10 s retry timer or not
		synctest.Wait()
	}
	send("g/c", "g/a", c1, 1+rng.Intn(2))
	send("g/c", "g/b", c2, sc.V2Parts)
	var before []delivered
	var beforeLog []loggedRec
	sc.Restart = rng.Intn(4) == 0
	if sc.Restart {
		before = append(before, rs.Disp.Events()...)
		beforeLog = append(beforeLog, rs.Log.Recs()...)
		rs.reboot(false)
		rs.Stage.Recover()
		synctest.Wait()
	}
	order := []string{"g/a", "g/b"}
	if rng.Intn(2) == 0 {
		order = []string{"g/b", "g/a"}
	}
	sc.Order = order
	for k, nm := range order {
		data := a
		if nm == "g/b" {
			data = b
		}
		send(nm, "", data, 1)
		// after the first of the two: c may be out only if it was b that arrived (and then it must be version 2)
		if k == 0 && nm == "g/a" {
			for _, d := range append(before, rs.Disp.Events()...) {
				if d.Rel == "g/c" {
					viol("held-until-predecessor", "newer-version-released-in-older-versions-turn", fmt.Sprintf("g/c (md5 %s) was delivered when g/a arrived, although its current version announces g/b, which has not been delivered", d.MD5))
					return
				}
			}
		}
	}
	time.Sleep(40 * time.Second)
	synctest.Wait()
	// ---- order of the log and of the deliveries, content of c
	seq := map[string]int{}
	for i, d := range append(before, rs.Disp.Events()...) {
		if _, ok := seq[d.Rel]; !ok {
			seq[d.Rel] = i + 1
		}
	}
	if seq["g/c"] == 0 {
		viol("released-after-predecessor", "reversion-never-released", "g/c was not delivered within 40 virtual s after both announced predecessors had been delivered")
	} else if seq["g/b"] == 0 || seq["g/b"] > seq["g/c"] {
		viol("held-until-predecessor", "newer-version-released-in-older-versions-turn", fmt.Sprintf("g/c was delivered (event %d) before g/b (event %d), the predecessor its current version announces", seq["g/c"], seq["g/b"]))
	}
	if bts, err := os.ReadFile(filepath.Join(rs.FinalDir, "g/c")); err == nil && md5hex(bts) != md5hex(c2) && !sc.Restart {
		viol("released-after-predecessor", "reversion-older-version-delivered", "the final directory holds version 1 of g/c although version 2 was received and validated")
	}
	lseq := map[string]int{}
	for i, l := range append(beforeLog, rs.Log.Recs()...) {
		if _, ok := lseq[l.Name]; !ok {
			lseq[l.Name] = i + 1
		}
	}
	if lseq["g/c"] > 0 && (lseq["g/b"] == 0 || lseq["g/b"] > lseq["g/c"]) {
		viol("held-until-predecessor", "newer-version-logged-in-older-versions-turn", "g/c was logged as received before g/b")
	}
	res.Count("reversion_histories", 1)
	res.NonTrivial(fmt.Sprintf("rev/%v/%v/%d/%v/%d/%d", sc.Order, sc.Restart, sc.V2Parts, sc.SameSize, size1, size2))
	res.Sample(sc)
}
