package harness

import (
	"fmt"
	"math/rand"
	"os"
	"path/filepath"
	"testing/synctest"
	"time"

	"github.com/arm-doe/sts"
)

// C05 (receiver level) — each validated file version is delivered exactly once.
//
// Retransmission histories against a real Stage under a virtual clock: any
// subset of parts or the whole file repeated, placed before completion, between
// completion and delivery (file held for a predecessor), after delivery, and
// after the in-memory record of the delivery is gone (receiver restart with or
// without Recover, virtual ageing by days).  The Dispatcher tap consumes every
// delivered file, so a second delivery re-creates it and is seen.

type c05Step struct {
	Op    string `json:"op"` // part | ask | restart | restart-norecover | sleep | clean | deliver-prev | poll
	File  int    `json:"file,omitempty"`
	Part  int    `json:"part,omitempty"`
	Hours int    `json:"hours,omitempty"`
	Note  string `json:"note,omitempty"`
}

type c05File struct {
	Name   string  `json:"name"`
	Size   int64   `json:"size"`
	Parts  int     `json:"parts"`
	AgeH   float64 `json:"file_age_h"`
	Held   bool    `json:"held_for_predecessor"`
	Rename bool    `json:"renamed"`
	data   []byte
	hash   string
	tiles  []iv
	ftime  time.Time
}

type c05Scenario struct {
	StalledH int        `json:"stalled_partial_of_another_file_hours_before,omitempty"`
	Files    []*c05File `json:"files"`
	Steps    []c05Step  `json:"steps"`
}

func runC05Stage(c *Ctx, prop string) {
	n := c.N(400, 8000)
	for i := 0; i < n; i++ {
		idx := 2_000_000 + i
		if !c.Mine(idx) {
			continue
		}
		rng := c.Rng(idx)
		sc := &c05Scenario{}
		dir := filepath.Join(c.Work, fmt.Sprintf("c05s-%d", idx))
		c.Guard(idx, sc, func() {
			bubble(c.T, func() { c05StageRun(c, prop, idx, rng, sc, dir) })
		})
		os.RemoveAll(dir)
	}
}

func c05StageRun(c *Ctx, prop string, idx int, rng *rand.Rand, sc *c05Scenario, dir string) {
	res := c.Res
	res.Eval()
	viol := func(clause, fp, detail string) {
		res.Violate(Violation{Clause: clause, Fingerprint: prop + "/" + fp, Detail: detail, Scenario: sc, Index: idx})
	}
	// start at a PRNG time of day so that log windows begin before / after "now"'s time of day
	time.Sleep(time.Duration(rng.Intn(86400)) * time.Second)
	rs := newRecvSide(dir, true)
	defer rs.close()
	nf := 1 + rng.Intn(3)
	for f := 0; f < nf; f++ {
		cf := &c05File{Name: fmt.Sprintf("d%d/f%d.dat", f%2, f), Size: int64(20 + rng.Intn(600)), Parts: 1 + rng.Intn(4),
			AgeH: []float64{0.2, 3, 13, 26, 200}[rng.Intn(5)] + rng.Float64()*11, Held: rng.Intn(4) == 0, Rename: rng.Intn(5) == 0}
		cf.data = randBytes(rng, cf.Size)
		cf.hash = md5hex(cf.data)
		if rng.Intn(5) == 0 {
			// the sender's clock is a few seconds ahead of the receiver's (or the file has a
			// near-future modification time): the delivery is logged BEFORE the file's time
			cf.AgeH = -float64(1+rng.Intn(50)) / 3600
		}
		cf.ftime = time.Now().Add(-time.Duration(cf.AgeH * float64(time.Hour)))
		cuts := map[int64]bool{0: true, cf.Size: true}
		for k := 0; k < cf.Parts-1; k++ {
			cuts[1+rng.Int63n(cf.Size-1)] = true
		}
		var cs []int64
		for x := range cuts {
			cs = append(cs, x)
		}
		sortInt64(cs)
		for k := 0; k+1 < len(cs); k++ {
			cf.tiles = append(cf.tiles, iv{cs[k], cs[k+1]})
		}
		cf.Parts = len(cf.tiles)
		sc.Files = append(sc.Files, cf)
	}
	anyHeld := false
	for _, cf := range sc.Files {
		if cf.Held {
			anyHeld = true
		}
	}
	if rng.Intn(3) == 0 {
		// a stalled transfer of some other file from hours ago: its companion is the
		// oldest thing in the staging area when the receiver is restarted later (the
		// log is then replayed from that companion's time minus a day)
		sc.StalledH = 3 + rng.Intn(40)
		sd := randBytes(rng, 80)
		d := &desc{Name: "stalled/other.dat", Hash: md5hex(sd), Size: 80, Time: time.Now().Add(-time.Hour), Beg: 0, End: 40, Send: 80}
		rs.Stage.Prepare([]sts.Binned{d})
		_ = rs.Stage.Receive(d.partial("src"), &chunkyReader{data: sd[:40], rng: rng, stop: -1})
		time.Sleep(time.Duration(sc.StalledH)*time.Hour + time.Duration(rng.Intn(3600))*time.Second)
		rs.restamp()
	}
	prevName := "pred/never-sent-until-released.dat"
	descOf := func(cf *c05File, t iv) *desc {
		d := &desc{Name: cf.Name, Hash: cf.hash, Size: cf.Size, Time: cf.ftime, Beg: t.b, End: t.e, Send: cf.Size}
		if cf.Held {
			d.Prev = prevName
		}
		if cf.Rename {
			d.Renamed = "renamed/" + filepath.Base(cf.Name)
		}
		return d
	}
	target := func(cf *c05File) string {
		if cf.Rename {
			return "renamed/" + filepath.Base(cf.Name)
		}
		return cf.Name
	}
	altRename := false // the sender announces another target name for the same version (its rename rule changed)
	altTarget := func(cf *c05File) string { return "elsewhere/" + filepath.Base(cf.Name) }
	sendPart := func(cf *c05File, ti int) error {
		d := descOf(cf, cf.tiles[ti])
		if altRename {
			d.Renamed = altTarget(cf)
		}
		rs.Stage.Prepare([]sts.Binned{d})
		err := rs.Stage.Receive(d.partial("src"), &chunkyReader{data: cf.data[d.Beg:d.End], rng: rng, stop: -1})
		rs.restamp()
		res.Count("parts_sent", 1)
		return err
	}
	var allDel []delivered
	var allLog []loggedRec
	collect := func() {
		allDel = append(allDel, rs.Disp.Events()...)
		allLog = append(allLog, rs.Log.Recs()...)
	}
	step := func(s c05Step) {
		sc.Steps = append(sc.Steps, s)
		switch s.Op {
		case "part":
			_ = sendPart(sc.Files[s.File], s.Part)
		case "ask":
			// the sender asks which of these parts the receiver holds and re-sends the rest
			cf := sc.Files[s.File]
			var ds []sts.Binned
			for _, t := range cf.tiles {
				ds = append(ds, descOf(cf, t))
			}
			n := rs.Stage.Received(ds)
			res.Count("received_questions", 1)
			for ti := n; ti < len(cf.tiles); ti++ {
				_ = sendPart(cf, ti)
			}
		case "restart":
			synctest.Wait()
			collect()
			rs.reboot(true)
			rs.Stage.Recover()
			res.Count("restarts_with_recover", 1)
		case "restart-norecover":
			// the source's stage directory was pruned away: the server creates the Stage
			// on demand, without Recover.  Only legitimate when nothing is staged (main
			// runs Recover for every stage directory it finds at start-up).
			synctest.Wait()
			collect()
			if len(treeListing(rs.StageDir)) > 0 || anyHeld {
				rs.reboot(true)
				rs.Stage.Recover()
				res.Count("restarts_with_recover", 1)
				break
			}
			rs.Stage.Prune(0)
			rs.reboot(true)
			res.Count("restarts_without_recover", 1)
		case "sleep":
			if anyHeld && s.Hours > 1 {
				// a file held for a missing predecessor re-scans a look-back window of
				// (minutes waited) DAYS of log files every 10 s; hours of waiting make
				// that walk millions of paths (a cost problem of sts, not our subject)
				s.Hours = 1
				sc.Steps[len(sc.Steps)-1].Hours = 1
			}
			time.Sleep(time.Duration(s.Hours) * time.Hour)
			rs.restamp()
		case "clean":
			rs.Stage.CleanNow()
		case "deliver-prev":
			p := &c05File{Name: prevName, Size: 10, data: []byte("0123456789"), ftime: time.Now().Add(-time.Hour)}
			p.hash = md5hex(p.data)
			p.tiles = []iv{{0, 10}}
			_ = func() error {
				d := &desc{Name: p.Name, Hash: p.hash, Size: p.Size, Time: p.ftime, Beg: 0, End: 10, Send: 10}
				rs.Stage.Prepare([]sts.Binned{d})
				return rs.Stage.Receive(d.partial("src"), &chunkyReader{data: p.data, rng: rng, stop: -1})
			}()
		case "poll":
			cf := sc.Files[s.File]
			st := rs.Stage.GetFileStatus(cf.Name, cf.ftime)
			res.Count(fmt.Sprintf("poll_answer_%d", st), 1)
		}
		synctest.Wait()
	}
	// ---- history: original transmission with duplicates sprinkled in
	dupAfterComplete := false
	for fi, cf := range sc.Files {
		order := rng.Perm(cf.Parts)
		for k, ti := range order {
			step(c05Step{Op: "part", File: fi, Part: ti})
			if rng.Intn(4) == 0 { // duplicate before completion
				step(c05Step{Op: "part", File: fi, Part: order[rng.Intn(k+1)], Note: "dup-before-completion"})
			}
		}
	}
	held := false
	for _, cf := range sc.Files {
		if cf.Held {
			held = true
		}
	}
	for _, cf := range sc.Files {
		if cf.AgeH < 0 {
			// let the receiver's clock pass the file's (sender-side) time before anything
			// is sent again.  (Under the virtual clock two successive time.Now() calls can
			// return the same instant, which a real clock never does; the receiver's
			// "read the log from A to B" is a no-op for A == B.)
			time.Sleep(2 * time.Minute)
			break
		}
	}
	// ---- retransmissions after completion
	nre := 1 + rng.Intn(4)
	for r := 0; r < nre; r++ {
		fi := rng.Intn(len(sc.Files))
		cf := sc.Files[fi]
		switch rng.Intn(8) {
		case 0:
			step(c05Step{Op: "restart"})
		case 1:
			step(c05Step{Op: "restart-norecover"})
		case 2:
			step(c05Step{Op: "sleep", Hours: []int{1, 23, 25, 49, 200}[rng.Intn(5)]})
		case 3:
			step(c05Step{Op: "clean"})
		}
		if held && rng.Intn(3) == 0 {
			step(c05Step{Op: "deliver-prev"})
			held = false
		}
		dupAfterComplete = true
		switch rng.Intn(4) {
		case 3: // whole file again under another target name (the sender's rename rule changed)
			altRename = true
			for ti := range cf.tiles {
				step(c05Step{Op: "part", File: fi, Part: ti, Note: "resend-whole-renamed-differently"})
			}
			altRename = false
		case 0: // whole file again, blindly
			for ti := range cf.tiles {
				step(c05Step{Op: "part", File: fi, Part: ti, Note: "resend-whole"})
			}
		case 1: // some parts again
			for ti := range cf.tiles {
				if rng.Intn(2) == 0 {
					step(c05Step{Op: "part", File: fi, Part: ti, Note: "resend-some"})
				}
			}
		default: // ask first, send what is not acknowledged
			step(c05Step{Op: "ask", File: fi})
		}
		step(c05Step{Op: "poll", File: fi})
	}
	if held {
		step(c05Step{Op: "deliver-prev"})
	}
	time.Sleep(2 * time.Minute)
	synctest.Wait()
	collect()
	// ---- oracle
	for _, cf := range sc.Files {
		nd := 0
		for _, d := range allDel {
			if (d.Rel == target(cf) || d.Rel == altTarget(cf)) && d.MD5 == cf.hash {
				nd++
			}
		}
		nl := 0
		for _, l := range allLog {
			if l.Name == cf.Name && l.Hash == cf.hash {
				nl++
			}
		}
		if nd > 1 {
			viol("delivered-once", "stage-delivered-twice", fmt.Sprintf("%s (hash %s) was delivered %d times (file time %.1f h before now, steps %d)", cf.Name, cf.hash, nd, cf.AgeH, len(sc.Steps)))
		}
		if nl > 1 {
			viol("logged-once", "stage-logged-twice", fmt.Sprintf("%s (hash %s) has %d receive-log records without any receiver crash", cf.Name, cf.hash, nl))
		}
		if nd == 0 {
			viol("delivered-once", "stage-never-delivered", fmt.Sprintf("%s was completely received (and re-sent) but never delivered", cf.Name))
		}
		// the poll answer for a delivered version must let the sender stop
		st := rs.Stage.GetFileStatus(cf.Name, cf.ftime)
		if nd >= 1 && st != sts.ConfirmPassed && st != sts.ConfirmWaiting {
			viol("duplicates-answered-as-received", "delivered-version-polled-negative", fmt.Sprintf("%s is delivered but the poll answers %d after the retransmissions (the sender would send it again)", cf.Name, st))
		}
	}
	if dupAfterComplete {
		res.NonTrivial(fmt.Sprintf("%v|%v", sc.Files, sc.Steps))
	}
	res.Count("deliveries", int64(len(allDel)))
	res.Sample(sc)
}

func sortInt64(a []int64) {
	for i := 1; i < len(a); i++ {
		for j := i; j > 0 && a[j] < a[j-1]; j-- {
			a[j], a[j-1] = a[j-1], a[j]
		}
	}
}
