package harness

import (
	"fmt"
	"math/rand"
	"os"
	"path/filepath"
	"testing/synctest"
	"time"

	"github.com/arm-doe/sts"
)

// C05 (receiver level) - retransmission after the receiver's in-memory record
// of the delivery has AGED OUT (the cache is cleaned whenever it reaches a
// multiple of 1000 entries; entries logged more than 24 h ago go, except the
// last file of an ordered stream, which is kept as chain end).  The history:
// an ordered stream and some unordered files are delivered, 25-100 virtual
// hours pass, ~1000 further files are delivered (the cleaning fires through the
// real path), then the old files are asked about / sent again.

type c05cScenario struct {
	Stream     int    `json:"ordered_stream_files"`
	Old        int    `json:"old_unordered_files"`
	QuietHours int    `json:"quiet_hours"`
	Fillers    int    `json:"filler_files"`
	Resend     string `json:"resend"`
	OldFirst   bool   `json:"old_files_before_stream"`
}

func runC05Cache(c *Ctx) {
	n := c.N(8, 160)
	for i := 0; i < n; i++ {
		idx := 5_000_000 + i
		if !c.Mine(idx) {
			continue
		}
		rng := c.Rng(idx)
		sc := &c05cScenario{}
		dir := filepath.Join(c.Work, fmt.Sprintf("c05c-%d", idx))
		c.Guard(idx, sc, func() {
			bubble(c.T, func() { c05CacheRun(c, idx, rng, sc, dir) })
		})
		os.RemoveAll(dir)
	}
}

func c05CacheRun(c *Ctx, idx int, rng *rand.Rand, sc *c05cScenario, dir string) {
	res := c.Res
	res.Eval()
	viol := func(clause, fp, detail string) {
		res.Violate(Violation{Clause: clause, Fingerprint: "C05/" + fp, Detail: detail, Scenario: sc, Index: idx})
	}
	time.Sleep(time.Duration(rng.Intn(86400)) * time.Second)
	rs := newRecvSide(dir, true)
	defer rs.close()
	type cf struct {
		name, prev, hash string
		data             []byte
		ft               time.Time
	}
	deliver := func(f *cf) {
		d := &desc{Name: f.name, Prev: f.prev, Hash: f.hash, Size: int64(len(f.data)), Time: f.ft, Beg: 0, End: int64(len(f.data)), Send: int64(len(f.data))}
		rs.Stage.Prepare([]sts.Binned{d})
		_ = rs.Stage.Receive(d.partial("src"), &chunkyReader{data: f.data, rng: rng, stop: -1})
	}
	mk := func(name, prev string) *cf {
		data := randBytes(rng, int64(5+rng.Intn(60)))
		return &cf{name: name, prev: prev, data: data, hash: md5hex(data), ft: time.Now().Add(-time.Duration(rng.Intn(50)) * time.Second)}
	}
	sc.Stream = 2 + rng.Intn(3)
	sc.Old = 1 + rng.Intn(3)
	sc.QuietHours = []int{25, 30, 49, 100}[rng.Intn(4)]
	sc.Fillers = 1000 + rng.Intn(60)
	sc.Resend = []string{"ask-then-send", "send-whole", "ask-only"}[rng.Intn(3)]
	sc.OldFirst = rng.Intn(2) == 0
	var olds []*cf
	sendOlds := func() {
		for k := 0; k < sc.Old; k++ {
			f := mk(fmt.Sprintf("old/x%d.dat", k), "")
			olds = append(olds, f)
			deliver(f)
			time.Sleep(time.Second)
		}
	}
	if sc.OldFirst {
		sendOlds()
	}
	prev := ""
	for k := 0; k < sc.Stream; k++ {
		f := mk(fmt.Sprintf("stream/s%d.dat", k), prev)
		deliver(f)
		prev = f.name
		time.Sleep(time.Second)
	}
	if !sc.OldFirst {
		time.Sleep(5 * time.Second)
		sendOlds()
	}
	synctest.Wait()
	time.Sleep(30 * time.Second)
	synctest.Wait()
	time.Sleep(time.Duration(sc.QuietHours) * time.Hour)
	rs.restamp()
	for k := 0; k < sc.Fillers; k++ {
		deliver(mk(fmt.Sprintf("fill/%d/f%d.dat", k%7, k), ""))
		if k%40 == 39 {
			rs.restamp()
			synctest.Wait()
			time.Sleep(2 * time.Second)
		}
	}
	synctest.Wait()
	time.Sleep(time.Minute)
	synctest.Wait()
	first := len(rs.Disp.Events())
	// ---- the old files again
	for _, f := range olds {
		d := &desc{Name: f.name, Hash: f.hash, Size: int64(len(f.data)), Time: f.ft, Beg: 0, End: int64(len(f.data)), Send: int64(len(f.data))}
		held := 0
		if sc.Resend != "send-whole" {
			held = rs.Stage.Received([]sts.Binned{d})
			res.Count(fmt.Sprintf("old_file_reported_held_%d", held), 1)
		}
		if sc.Resend == "send-whole" || (sc.Resend == "ask-then-send" && held == 0) {
			deliver(f)
		}
		synctest.Wait()
		time.Sleep(5 * time.Second)
	}
	synctest.Wait()
	time.Sleep(time.Minute)
	synctest.Wait()
	for _, f := range olds {
		nd, nl := 0, 0
		for _, d := range rs.Disp.Events() {
			if d.Rel == f.name && d.MD5 == f.hash {
				nd++
			}
		}
		for _, l := range rs.Log.Recs() {
			if l.Name == f.name && l.Hash == f.hash {
				nl++
			}
		}
		if nd > 1 {
			viol("delivered-once", "stage-delivered-twice-after-cache-ageing", fmt.Sprintf("%s (hash %s) delivered %d times: once before the quiet %d h and again when it was sent again after the receiver's cache had been cleaned (%d deliveries in between)", f.name, f.hash, nd, sc.QuietHours, first))
		}
		if nl > 1 {
			viol("logged-once", "stage-logged-twice-after-cache-ageing", fmt.Sprintf("%s (hash %s) has %d receive-log records without any receiver crash", f.name, f.hash, nl))
		}
		if nd == 0 {
			viol("delivered-once", "stage-never-delivered", fmt.Sprintf("%s was never delivered", f.name))
		}
		if st := rs.Stage.GetFileStatus(f.name, f.ft); st != sts.ConfirmPassed {
			viol("duplicates-answered-as-received", "delivered-version-polled-negative-after-cache-ageing", fmt.Sprintf("%s was delivered %d h ago but the poll now answers %d", f.name, sc.QuietHours, st))
		}
	}
	res.Count("deliveries_in_cache_ageing_histories", int64(len(rs.Disp.Events())))
	res.Count("cache_ageing_histories", 1)
	res.NonTrivial(fmt.Sprintf("c05c/%+v", *sc))
	res.Sample(sc)
}
