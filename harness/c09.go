package harness

import (
	"fmt"
	"math/rand"
	"os"
	"path/filepath"
	"runtime"
	"sort"
	"strings"
	"sync"
	"sync/atomic"
	"testing/synctest"
	"time"

	"github.com/arm-doe/sts"
	"github.com/arm-doe/sts/zzverif/vfs"
)

// C09 — the receiver's record of partly received files is sound.
//
// The real Stage is driven directly through the GateKeeper interface inside a
// bubble.  Reference model: per file a byte array plus a "fed for the current
// version" bitmap, updated at every acknowledged Receive.

func init() { register("C09", func(c *Ctx) { runC09(c); runC09Refail(c) }) }

type c09Op struct {
	File   int    `json:"file"`
	Beg    int64  `json:"beg"`
	End    int64  `json:"end"`
	Reader string `json:"reader"` // full | short:k | err:k
	Ver    int    `json:"ver"`
	Conc   int    `json:"conc,omitempty"` // >0: member of a concurrent group
	Ack    bool   `json:"ack"`
	Fault  string `json:"fault,omitempty"` // companion-enospc: the write of the part record hits a full disk
}

type c09Scenario struct {
	Sizes [][]int64 `json:"sizes"` // per file, per version
	Ops   []c09Op   `json:"ops"`
	Note  string    `json:"note,omitempty"`
}

type c09File struct {
	name     string
	versions [][]byte
	hashes   []string
	// model
	cur      int // current version index on the receiver (-1 none)
	disk     []byte
	fed      []bool
	acked    []iv
	ackedPos []int // op index of each acked range
	done     bool
	// bytes of the staged body overwritten by a part of ANOTHER version whose
	// reception then failed (the record still describes the old version)
	dirtyOther []bool
	mu         sync.Mutex
}

func runC09(c *Ctx) {
	n := c.N(3000, 100000)
	for i := 0; i < n; i++ {
		if !c.Mine(i) {
			continue
		}
		rng := c.Rng(i)
		sc := &c09Scenario{}
		dir := filepath.Join(c.Work, fmt.Sprintf("c09-%d", i))
		c.Guard(i, sc, func() {
			bubble(c.T, func() { c09Run(c, i, rng, sc, dir) })
		})
		os.RemoveAll(dir)
	}
}

func c09Run(c *Ctx, idx int, rng *rand.Rand, sc *c09Scenario, dir string) {
	res := c.Res
	res.Eval()
	viol := func(clause, fp, detail string) {
		res.Violate(Violation{Clause: clause, Fingerprint: "C09/" + fp, Detail: detail, Scenario: sc, Index: idx})
	}
	rs := newRecvSide(dir, false)
	defer rs.close()
	concurrent := rng.Intn(3) == 0
	// storage fault (sequential sequences): when armed, the next write of a companion's
	// temporary file lands on a full device (the temporary name is made a link to
	// /dev/full just before the write: open succeeds, write fails with ENOSPC)
	var faultArmed atomic.Bool
	var faultPath atomic.Value
	if !concurrent {
		rs.Dom.Before = func(ev *vfs.Event) error {
			if ev.Op == vfs.OpWriteFile && strings.HasSuffix(ev.Path, ".cmp.lck") && faultArmed.CompareAndSwap(true, false) {
				_ = os.Remove(ev.Path)
				if os.Symlink("/dev/full", ev.Path) == nil {
					faultPath.Store(ev.Path)
				}
			}
			return nil
		}
	}
	if concurrent {
		// permute goroutine order at every intercepted file-system call.  (No
		// virtual sleep here: these calls are made under the Stage's path locks, and
		// a goroutine blocked on a sync.Mutex is not "durably blocked" for synctest,
		// so a sleeping lock holder would stop the virtual clock for good.)
		rs.Dom.Before = yieldHook(rng.Int63())
	}
	nfiles := 1 + rng.Intn(3)
	files := make([]*c09File, nfiles)
	for f := range files {
		cf := &c09File{name: fmt.Sprintf("d%d/file%d.dat", f%2, f), cur: -1}
		nver := 1
		if !concurrent && rng.Intn(4) == 0 {
			nver = 2 + rng.Intn(2)
		}
		var sizes []int64
		size := int64(1 + rng.Intn(3000))
		if rng.Intn(5) == 0 {
			size = int64(1 + rng.Intn(8))
		}
		for v := 0; v < nver; v++ {
			if v > 0 && rng.Intn(2) == 0 {
				size = int64(1 + rng.Intn(3000)) // size changes with the version
			}
			data := randBytes(rng, size)
			cf.versions = append(cf.versions, data)
			cf.hashes = append(cf.hashes, md5hex(data))
			sizes = append(sizes, size)
		}
		sc.Sizes = append(sc.Sizes, sizes)
		files[f] = cf
	}
	// concurrent scenarios use a fixed tiling per file: parts are then disjoint or
	// identical, never partially overlapping, so that a part dropped from the
	// record under concurrency cannot be mistaken for the (known) overlap rule
	tiles := make([][]iv, nfiles)
	if concurrent {
		for f, cf := range files {
			size := int64(len(cf.versions[0]))
			nt := 1 + rng.Intn(6)
			cuts := map[int64]bool{0: true, size: true}
			for k := 0; k < nt; k++ {
				cuts[rng.Int63n(size+1)] = true
			}
			var cs []int64
			for c := range cuts {
				cs = append(cs, c)
			}
			sort.Slice(cs, func(i, j int) bool { return cs[i] < cs[j] })
			for k := 0; k+1 < len(cs); k++ {
				tiles[f] = append(tiles[f], iv{cs[k], cs[k+1]})
			}
		}
	}
	ftime := time.Now().Add(-time.Hour)
	mkDesc := func(cf *c09File, v int, b, e int64) *desc {
		return &desc{Name: cf.name, Hash: cf.hashes[v], Size: int64(len(cf.versions[v])), Time: ftime, Beg: b, End: e, Send: int64(len(cf.versions[v]))}
	}

	// model update after Receive returned
	apply := func(cf *c09File, v int, b, e int64, fedN int, err error, opi int) {
		cf.mu.Lock()
		defer cf.mu.Unlock()
		data := cf.versions[v]
		if cf.cur != v {
			if err != nil {
				// a failed Receive of another version (same size, so Prepare kept the
				// staged body) has written fedN bytes of that version over it
				if cf.dirtyOther == nil || len(cf.dirtyOther) != len(cf.disk) {
					cf.dirtyOther = make([]bool, len(cf.disk))
				}
				for i := int64(0); i < int64(fedN) && b+i < int64(len(cf.disk)); i++ {
					cf.disk[b+i] = data[b+i]
					cf.dirtyOther[b+i] = true
				}
				return
			}
			cf.dirtyOther = nil
			cf.cur = v
			cf.fed = make([]bool, len(data))
			cf.acked = nil
			cf.ackedPos = nil
		}
		for i := int64(0); i < int64(fedN) && b+i < int64(len(cf.disk)); i++ {
			cf.disk[b+i] = data[b+i]
			if err == nil {
				cf.fed[b+i] = true
			}
		}
		if err == nil {
			cf.acked = append(cf.acked, iv{b, e})
			cf.ackedPos = append(cf.ackedPos, opi)
		}
	}
	// Prepare re-creates the staged body when the announced size differs (or none exists)
	prepareModel := func(cf *c09File, v int) {
		cf.mu.Lock()
		defer cf.mu.Unlock()
		size := len(cf.versions[v])
		if cf.disk == nil || len(cf.disk) != size {
			cf.disk = make([]byte, size)
			// the companion of an unknown/failed file is removed with it
			cf.cur = -1
			cf.fed = nil
			cf.acked = nil
			cf.ackedPos = nil
			cf.dirtyOther = nil
		}
	}

	checkClaims := func(when string) bool {
		synctest.Wait()
		listing, err := rs.listing()
		if err != nil {
			res.Inconc("scan failed: " + err.Error())
			return false
		}
		res.Count("scans", 1)
		ok := true
		for _, cf := range files {
			cf.mu.Lock()
			p := listing[cf.name]
			partPath := filepath.Join(rs.StageDir, cf.name+".part")
			body, berr := os.ReadFile(partPath)
			if p != nil && !cf.done {
				// claims ⊆ truth
				if cf.cur < 0 || p.Hash != cf.hashes[cf.cur] {
					viol("claims-subset-of-truth", "claim-other-version", fmt.Sprintf("%s (%s): listing claims ranges for hash %s but the model's current version is %d", cf.name, when, p.Hash, cf.cur))
					ok = false
				} else {
					for _, r := range p.Parts {
						res.Count("claimed_ranges_checked", 1)
						for i := r.Beg; i < r.End; i++ {
							if i < 0 || i >= int64(len(cf.fed)) || !cf.fed[i] {
								fp := "claim-unfed-bytes"
								viol("claims-subset-of-truth", fp, fmt.Sprintf("%s (%s): listing claims %s but byte %d was never received for this version", cf.name, when, fmtIv(r.Beg, r.End), i))
								ok = false
								break
							}
							if berr == nil && (i >= int64(len(body)) || body[i] != cf.versions[cf.cur][i]) {
								fp := "claim-wrong-bytes-on-disk"
								if cf.dirtyOther != nil && i < int64(len(cf.dirtyOther)) && cf.dirtyOther[i] {
									fp = "claim-stale-after-failed-part-of-other-version"
								}
								viol("claims-subset-of-truth", fp, fmt.Sprintf("%s (%s): listing claims %s but the staged file holds a different byte at %d", cf.name, when, fmtIv(r.Beg, r.End), i))
								ok = false
								break
							}
						}
					}
				}
			}
			// acknowledged ⊆ claims (while the file is still partial)
			if !cf.done && cf.cur >= 0 && len(cf.acked) > 0 {
				covered := make([]bool, len(cf.versions[cf.cur]))
				if p != nil && p.Hash == cf.hashes[cf.cur] {
					for _, r := range p.Parts {
						for i := r.Beg; i < r.End && i < int64(len(covered)); i++ {
							if i >= 0 {
								covered[i] = true
							}
						}
					}
				}
				stillPartial := berr == nil
				if stillPartial {
					for ai, a := range cf.acked {
						miss := int64(-1)
						for i := a.b; i < a.e; i++ {
							if !covered[i] {
								miss = i
								break
							}
						}
						if miss >= 0 {
							// classify: was a later acknowledged part overlapping (not identical to) this one?
							fp := "ack-dropped"
							for aj := ai + 1; aj < len(cf.acked); aj++ {
								o := cf.acked[aj]
								if o.b < a.e && a.b < o.e && (o.b != a.b || o.e != a.e) {
									fp = "ack-dropped-by-overlapping-part"
								}
							}
							for aj := 0; aj < ai; aj++ {
								o := cf.acked[aj]
								if o.b < a.e && a.b < o.e && (o.b != a.b || o.e != a.e) && fp == "ack-dropped" {
									fp = "ack-dropped-by-overlapping-part"
								}
							}
							viol("acknowledged-stays-on-record", fp, fmt.Sprintf("%s (%s): part %s was acknowledged but byte %d is no longer on record (listing %s)", cf.name, when, fmtIv(a.b, a.e), miss, partsStr(p)))
							ok = false
							break
						}
					}
				}
			}
			cf.mu.Unlock()
		}
		return ok
	}

	// completion: a file that left the partial state must be fully fed
	checkCompletion := func(when string) {
		synctest.Wait()
		for _, cf := range files {
			cf.mu.Lock()
			if !cf.done && cf.cur >= 0 {
				base := filepath.Join(rs.StageDir, cf.name)
				_, e1 := os.Stat(base + ".part")
				left := false
				for _, ext := range []string{".full", ".wait"} {
					if _, e := os.Stat(base + ext); e == nil {
						left = true
					}
				}
				if _, e := os.Stat(filepath.Join(rs.FinalDir, cf.name)); e == nil {
					left = true
				}
				_ = e1
				if left {
					cf.done = true
					res.Count("files_completed", 1)
					for i, f := range cf.fed {
						if !f {
							viol("complete-only-when-covered", "complete-with-unfed-byte", fmt.Sprintf("%s (%s): treated as complete although byte %d was never received", cf.name, when, i))
							break
						}
					}
				}
			}
			cf.mu.Unlock()
		}
	}

	doOp := func(op *c09Op, opi int) {
		cf := files[op.File]
		data := cf.versions[op.Ver]
		d := mkDesc(cf, op.Ver, op.Beg, op.End)
		rd := &chunkyReader{data: data[op.Beg:op.End], rng: rand.New(rand.NewSource(int64(opi)*7919 + 1)), max: 1 + rand.New(rand.NewSource(int64(opi))).Intn(70000), stop: -1}
		var k int
		if n, _ := fmt.Sscanf(op.Reader, "short:%d", &k); n == 1 {
			rd.stop = k
		} else if n, _ := fmt.Sscanf(op.Reader, "err:%d", &k); n == 1 {
			rd.stop = k
			rd.endErr = errInjected
		}
		rs.Stage.Prepare([]sts.Binned{d})
		prepareModel(cf, op.Ver)
		if op.Fault == "companion-enospc" {
			faultPath.Store("")
			faultArmed.Store(true)
		}
		err := rs.Stage.Receive(d.partial("src"), rd)
		if op.Fault == "companion-enospc" {
			faultArmed.Store(false)
			if fp, _ := faultPath.Load().(string); fp != "" {
				res.Count("companion_write_faults_fired", 1)
				if fi, e := os.Lstat(fp); e == nil && fi.Mode()&os.ModeSymlink != 0 {
					_ = os.Remove(fp) // the disk has room again
				}
				if err == nil {
					res.Count("receives_acked_despite_companion_fault", 1)
				}
			}
		}
		op.Ack = err == nil
		apply(cf, op.Ver, op.Beg, op.End, rd.fed, err, opi)
		res.Count("receives", 1)
		if err == nil {
			res.Count("receives_acked", 1)
		}
	}

	// ---- generate the part sequence
	nops := 2 + rng.Intn(11)
	overlapping := false
	shortRead := false
	for o := 0; o < nops; o++ {
		fi := rng.Intn(nfiles)
		cf := files[fi]
		if cf.done {
			continue
		}
		v := 0
		if len(cf.versions) > 1 {
			v = rng.Intn(len(cf.versions))
			if cf.cur >= 0 && rng.Intn(3) != 0 {
				v = cf.cur
			}
		}
		size := int64(len(cf.versions[v]))
		var b, e int64
		switch rng.Intn(8) {
		case 0: // whole file
			b, e = 0, size
		case 1: // one byte
			b = rng.Int63n(size)
			e = b + 1
		case 2: // identical to / nested in / overlapping an acknowledged range
			if len(cf.acked) > 0 && cf.cur == v {
				a := cf.acked[rng.Intn(len(cf.acked))]
				switch rng.Intn(3) {
				case 0:
					b, e = a.b, a.e
				case 1:
					b = a.b + rng.Int63n(a.e-a.b)
					e = b + 1 + rng.Int63n(a.e-b)
					overlapping = true
				default:
					b = a.b + rng.Int63n(a.e-a.b)
					e = b + 1 + rng.Int63n(size-b)
					overlapping = true
				}
				break
			}
			fallthrough
		case 3, 4: // next missing piece (tends to complete the file)
			pos := int64(0)
			if cf.cur == v {
				for pos < size && cf.fed[pos] {
					pos++
				}
			}
			if pos >= size {
				pos = rng.Int63n(size)
			}
			b = pos
			e = b + 1 + rng.Int63n(size-b)
			if rng.Intn(2) == 0 {
				e = size
			}
		default:
			b = rng.Int63n(size)
			e = b + 1 + rng.Int63n(size-b)
		}
		if concurrent {
			t := tiles[fi][rng.Intn(len(tiles[fi]))]
			b, e, v = t.b, t.e, 0
		}
		op := c09Op{File: fi, Beg: b, End: e, Ver: v, Reader: "full"}
		switch rng.Intn(12) {
		case 0:
			if e-b > 1 {
				op.Reader = fmt.Sprintf("short:%d", rng.Int63n(e-b))
				shortRead = true
			}
		case 1:
			op.Reader = fmt.Sprintf("err:%d", rng.Int63n(e-b))
		}
		if !concurrent && rng.Intn(8) == 0 {
			op.Fault = "companion-enospc"
		}
		sc.Ops = append(sc.Ops, op)
		opi := len(sc.Ops) - 1
		if concurrent && o+1 < nops && rng.Intn(2) == 0 {
			// gather a concurrent group: disjoint pieces of files delivered by m goroutines
			group := []int{opi}
			m := 1 + rng.Intn(4)
			for g := 0; g < m; g++ {
				fj := rng.Intn(nfiles)
				cj := files[fj]
				if cj.done {
					continue
				}
				t := tiles[fj][rng.Intn(len(tiles[fj]))]
				bb, ee := t.b, t.e
				sc.Ops = append(sc.Ops, c09Op{File: fj, Beg: bb, End: ee, Ver: 0, Reader: "full", Conc: opi + 1})
				group = append(group, len(sc.Ops)-1)
			}
			sc.Ops[opi].Conc = opi + 1
			sc.Ops[opi].Ver = 0
			if sc.Ops[opi].End > int64(len(files[fi].versions[0])) {
				sc.Ops[opi].End = int64(len(files[fi].versions[0]))
			}
			if sc.Ops[opi].Beg >= sc.Ops[opi].End {
				sc.Ops[opi].Beg = 0
			}
			var wg sync.WaitGroup
			for _, gi := range group {
				wg.Add(1)
				go func(gi int) {
					defer wg.Done()
					doOp(&sc.Ops[gi], gi)
				}(gi)
			}
			if rng.Intn(2) == 0 {
				// a starting sender of the same source asks for the list of partly
				// received files while the parts arrive
				nl := 1 + rng.Intn(4)
				wg.Add(1)
				go func() {
					defer wg.Done()
					for k := 0; k < nl; k++ {
						if k%2 == 0 {
							_, _ = rs.Stage.Scan("1")
						} else {
							// ... or a sender thread whose request failed asks which parts
							// of a file are on record
							fj := group[k%len(group)]
							cj := files[sc.Ops[fj].File]
							t := tiles[sc.Ops[fj].File][k%len(tiles[sc.Ops[fj].File])]
							_ = rs.Stage.Received([]sts.Binned{mkDesc(cj, 0, t.b, t.e)})
						}
						runtime.Gosched()
					}
					res.Count("listings_during_concurrent_receptions", int64(nl))
				}()
			}
			wg.Wait()
			res.Count("concurrent_groups", 1)
			o += len(group) - 1
		} else {
			doOp(&sc.Ops[opi], opi)
		}
		checkCompletion(fmt.Sprintf("after op %d", len(sc.Ops)-1))
		if !checkClaims(fmt.Sprintf("after op %d", len(sc.Ops)-1)) {
			return
		}

		// Received() queries against the record
		if rng.Intn(2) == 0 && !cf.done && cf.cur >= 0 {
			cf.mu.Lock()
			v := cf.cur
			size := int64(len(cf.versions[v]))
			var qs []sts.Binned
			var ranges []iv
			for k := 0; k < 1+rng.Intn(3); k++ {
				var qb, qe int64
				if len(cf.acked) > 0 && rng.Intn(3) != 0 {
					a := cf.acked[rng.Intn(len(cf.acked))]
					switch rng.Intn(4) {
					case 0:
						qb, qe = a.b, a.e
					case 1:
						qb = a.b + rng.Int63n(a.e-a.b)
						qe = qb + 1 + rng.Int63n(a.e-qb)
					case 2: // across the end of the range
						qb = a.b + rng.Int63n(a.e-a.b)
						qe = qb + 1 + rng.Int63n(size-qb)
					default:
						qb = rng.Int63n(size)
						qe = qb + 1 + rng.Int63n(size-qb)
					}
				} else {
					qb = rng.Int63n(size)
					qe = qb + 1 + rng.Int63n(size-qb)
				}
				qs = append(qs, mkDesc(cf, v, qb, qe))
				ranges = append(ranges, iv{qb, qe})
			}
			fed := append([]bool(nil), cf.fed...)
			cf.mu.Unlock()
			nrecv := rs.Stage.Received(qs)
			res.Count("received_queries", 1)
			for k := 0; k < nrecv && k < len(ranges); k++ {
				for i := ranges[k].b; i < ranges[k].e; i++ {
					if !fed[i] {
						viol("claims-subset-of-truth", "received-counts-unfed-part", fmt.Sprintf("%s: Received() counted part %s but byte %d was never received", cf.name, fmtIv(ranges[k].b, ranges[k].e), i))
						return
					}
				}
			}
		}
	}
	checkCompletion("end")
	checkClaims("end")
	// Received() about a version the receiver has never seen a byte of (the same
	// name used again for new content): whatever it holds or has delivered under that
	// name, it holds no part of this one
	synctest.Wait()
	time.Sleep(5 * time.Second)
	synctest.Wait()
	for _, cf := range files {
		psize := int64(1 + rng.Intn(3000))
		if rng.Intn(2) == 0 && len(cf.versions) > 0 {
			psize = int64(len(cf.versions[len(cf.versions)-1])) // same size as the last version
		}
		phash := md5hex(randBytes(rng, psize))
		for _, h := range cf.hashes {
			if h == phash { // tiny files: the invented content can be the real one
				phash = md5hex([]byte("a version nobody ever wrote: " + cf.name))
			}
		}
		var qs []sts.Binned
		for k := 0; k < 1+rng.Intn(3); k++ {
			qb := rng.Int63n(psize)
			qe := qb + 1 + rng.Int63n(psize-qb)
			if k == 0 && rng.Intn(2) == 0 {
				qb, qe = 0, psize
			}
			qs = append(qs, &desc{Name: cf.name, Hash: phash, Size: psize, Time: time.Now().Add(-time.Duration(rng.Intn(3000)) * time.Second), Beg: qb, End: qe, Send: psize})
		}
		res.Count("received_queries_about_unseen_version", 1)
		if n := rs.Stage.Received(qs); n > 0 {
			viol("claims-subset-of-truth", "received-counts-part-of-unseen-version", fmt.Sprintf("%s: Received() reports %d leading part(s) of a version (hash %s, size %d) of which no byte was ever sent; file state before: done=%v", cf.name, n, phash, psize, cf.done))
			break
		}
	}
	key := fmt.Sprintf("%v|%d|%v|%v", sc.Sizes, len(sc.Ops), concurrent, overlapping)
	if len(sc.Ops) >= 2 {
		res.NonTrivial(key)
	}
	if overlapping {
		res.Count("sequences_with_overlap", 1)
	}
	if shortRead {
		res.Count("sequences_with_short_reader", 1)
	}
	if concurrent {
		res.Count("sequences_concurrent", 1)
	}
	res.Sample(sc)
}

func partsStr(p *sts.Partial) string {
	if p == nil {
		return "<not listed>"
	}
	s := ""
	for _, r := range p.Parts {
		s += fmtIv(r.Beg, r.End)
	}
	return s
}
