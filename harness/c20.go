package harness

import (
	"encoding/json"
	"fmt"
	"io"
	"math/rand"
	"os"
	"path/filepath"
	"sort"
	"strings"
	"testing/synctest"
	"time"

	"github.com/arm-doe/sts"
	"github.com/arm-doe/sts/zzverif/vfs"
)

// C20 — staging clean-up removes only what is already delivered.
//
// Staging states are built by the receive protocol itself on a real Stage, ages
// are then set explicitly on both sides of the thresholds, and CleanNow / Prune
// (and the 30 min timer) run; the oracle diffs the tree around each cleaning.

func init() { register("C20", runC20) }

type c20Item struct {
	Name          string  `json:"name"`
	State         string  `json:"state"` // in-progress | new-version | held | full-stalled | orphan-cmp | dup-of-delivered | stray-delivered | stray-unknown | delivered
	AgeH          float64 `json:"age_h"`
	Size          int64   `json:"size"`
	Parts         int     `json:"parts_received"`
	Twin          string  `json:"delivered_twin,omitempty"` // another file with the same content, whose name starts with this name, delivered and logged
	InFlightClean bool    `json:"cleaning_ran_while_first_part_was_streaming,omitempty"`
	data          []byte
	hash          string
	old           []byte // delivered earlier version (new-version / dup)
	tiles         []iv
	got           []bool
}

type c20Scenario struct {
	Items  []*c20Item `json:"items"`
	Prune  float64    `json:"prune_min_age_h"`
	Reboot bool       `json:"receiver_restarted_before_cleaning,omitempty"`
	Note   string     `json:"note,omitempty"`
	Before []string   `json:"tree_before,omitempty"`
	After  []string   `json:"tree_after,omitempty"`
}

func runC20(c *Ctx) {
	n := c.N(300, 8000)
	for i := 0; i < n; i++ {
		if !c.Mine(i) {
			continue
		}
		rng := c.Rng(i)
		sc := &c20Scenario{}
		dir := filepath.Join(c.Work, fmt.Sprintf("c20-%d", i))
		c.Guard(i, sc, func() {
			bubble(c.T, func() { c20Run(c, i, rng, sc, dir) })
		})
		os.RemoveAll(dir)
	}
}

// midReader calls fn once after 'at' bytes have been handed out
type midReader struct {
	r    io.Reader
	at   int
	n    int
	done bool
	fn   func()
}

func (m *midReader) Read(p []byte) (int, error) {
	if !m.done && m.n >= m.at {
		m.done = true
		m.fn()
	}
	n, err := m.r.Read(p)
	m.n += n
	return n, err
}

type treeEntry struct {
	size  int64
	md5   string
	isDir bool
	mtime time.Time
}

func snapshotTree(root string) map[string]treeEntry {
	out := map[string]treeEntry{}
	_ = filepath.Walk(root, func(p string, info os.FileInfo, err error) error {
		if err != nil {
			return nil
		}
		rel, _ := filepath.Rel(root, p)
		e := treeEntry{size: info.Size(), isDir: info.IsDir(), mtime: info.ModTime()}
		if !info.IsDir() {
			if b, err := os.ReadFile(p); err == nil {
				e.md5 = md5hex(b)
			}
		}
		out[rel] = e
		return nil
	})
	return out
}

func c20Run(c *Ctx, idx int, rng *rand.Rand, sc *c20Scenario, dir string) {
	res := c.Res
	res.Eval()
	viol := func(clause, fp, detail string) {
		res.Violate(Violation{Clause: clause, Fingerprint: "C20/" + fp, Detail: detail, Scenario: sc, Index: idx})
	}
	rs := newRecvSide(dir, false)
	defer rs.close()
	ftime := time.Now().Add(-2 * time.Hour)
	stallFull := map[string]bool{}
	rs.Dom.Before = func(ev *vfs.Event) error {
		if ev.Op == vfs.OpOpen && strings.HasSuffix(ev.Path, ".full") {
			nm, _ := filepath.Rel(rs.StageDir, strings.TrimSuffix(ev.Path, ".full"))
			if stallFull[nm] {
				vfs.Park() // validation stalls on reading the body: the file stays complete-but-unvalidated
			}
		}
		return nil
	}
	sendPart := func(it *c20Item, data []byte, hash string, prev string, t iv) error {
		d := &desc{Name: it.Name, Prev: prev, Hash: hash, Size: int64(len(data)), Time: ftime, Beg: t.b, End: t.e, Send: int64(len(data))}
		rs.Stage.Prepare([]sts.Binned{d})
		return rs.Stage.Receive(d.partial("src"), &chunkyReader{data: data[t.b:t.e], rng: rng, stop: -1})
	}
	tile := func(size int64, n int) []iv {
		cuts := map[int64]bool{0: true, size: true}
		for k := 0; k < n-1; k++ {
			cuts[1+rng.Int63n(size-1)] = true
		}
		var cs []int64
		for x := range cuts {
			cs = append(cs, x)
		}
		sort.Slice(cs, func(i, j int) bool { return cs[i] < cs[j] })
		var out []iv
		for k := 0; k+1 < len(cs); k++ {
			out = append(out, iv{cs[k], cs[k+1]})
		}
		return out
	}
	deliverWhole := func(it *c20Item, data []byte) {
		_ = sendPart(it, data, md5hex(data), "", iv{0, int64(len(data))})
		synctest.Wait()
	}

	states := []string{"in-progress", "new-version", "held", "full-stalled", "orphan-cmp", "dup-of-delivered", "stray-delivered", "stray-unknown", "delivered", "resend-after-failed"}
	ages := []float64{0.5, 23.9, 24.1, 30, 80}
	nitems := 2 + rng.Intn(6)
	for k := 0; k < nitems; k++ {
		it := &c20Item{Name: fmt.Sprintf("d%d/sub%d/f%02d.dat", k%2, k%3, k), State: states[rng.Intn(len(states))], AgeH: ages[rng.Intn(len(ages))]}
		it.Size = int64(20 + rng.Intn(900))
		it.data = randBytes(rng, it.Size)
		it.hash = md5hex(it.data)
		sc.Items = append(sc.Items, it)
		if (it.State == "in-progress" || it.State == "stray-unknown") && rng.Intn(3) == 0 {
			// a copy of the file under a longer name (f.dat-copy, f.dat.bak) went through
			// completely: same content, same hash, a log record that starts with this name
			it.Twin = it.Name + []string{"-copy", ".bak", "2"}[rng.Intn(3)]
			deliverWhole(&c20Item{Name: it.Twin}, it.data)
			time.Sleep(3 * time.Second)
			synctest.Wait()
		}
		switch it.State {
		case "in-progress":
			it.tiles = tile(it.Size, 2+rng.Intn(4))
			it.got = make([]bool, len(it.tiles))
			nrecv := 1 + rng.Intn(len(it.tiles)-1)
			for _, ti := range rng.Perm(len(it.tiles))[:nrecv] {
				_ = sendPart(it, it.data, it.hash, "", it.tiles[ti])
				it.got[ti] = true
			}
			it.Parts = nrecv
		case "new-version":
			it.old = randBytes(rng, it.Size)
			deliverWhole(it, it.old)
			it.tiles = tile(it.Size, 2+rng.Intn(4))
			it.got = make([]bool, len(it.tiles))
			nrecv := 1 + rng.Intn(len(it.tiles)-1)
			it.InFlightClean = rng.Intn(3) == 0
			for n, ti := range rng.Perm(len(it.tiles))[:nrecv] {
				if n == 0 && it.InFlightClean {
					// an on-demand cleaning runs while the first part of the new version is
					// still streaming in (the staged body exists, its companion not yet)
					t := it.tiles[ti]
					d := &desc{Name: it.Name, Hash: it.hash, Size: it.Size, Time: ftime, Beg: t.b, End: t.e, Send: it.Size}
					rs.Stage.Prepare([]sts.Binned{d})
					rd := &midReader{r: &chunkyReader{data: it.data[t.b:t.e], rng: rng, max: 1 + int(t.e-t.b)/3, stop: -1}, at: int(t.e-t.b) / 2, fn: func() {
						rs.Stage.CleanNow()
						res.Count("cleanings_during_a_streaming_part", 1)
					}}
					_ = rs.Stage.Receive(d.partial("src"), rd)
				} else {
					_ = sendPart(it, it.data, it.hash, "", it.tiles[ti])
				}
				it.got[ti] = true
			}
			it.Parts = nrecv
		case "resend-after-failed":
			// received completely but damaged in transit: validation fails; the sender
			// sends the same version again and stalls after some parts
			bad := append([]byte{}, it.data...)
			bad[rng.Intn(len(bad))] ^= 0x17
			_ = sendPart(it, bad, it.hash, "", iv{0, it.Size})
			synctest.Wait()
			time.Sleep(3 * time.Second)
			synctest.Wait()
			it.tiles = tile(it.Size, 2+rng.Intn(4))
			it.got = make([]bool, len(it.tiles))
			nrecv := 1 + rng.Intn(len(it.tiles)-1)
			for _, ti := range rng.Perm(len(it.tiles))[:nrecv] {
				_ = sendPart(it, it.data, it.hash, "", it.tiles[ti])
				it.got[ti] = true
			}
			it.Parts = nrecv
		case "held":
			_ = sendPart(it, it.data, it.hash, "never/sent.dat", iv{0, it.Size})
		case "full-stalled":
			stallFull[it.Name] = true
			_ = sendPart(it, it.data, it.hash, "", iv{0, it.Size})
		case "orphan-cmp":
			// crash image: companion without body
			it.tiles = tile(it.Size, 3)
			_ = sendPart(it, it.data, it.hash, "", it.tiles[0])
			synctest.Wait()
			_ = os.Remove(filepath.Join(rs.StageDir, it.Name+".part"))
		case "dup-of-delivered":
			deliverWhole(it, it.data)
			it.tiles = tile(it.Size, 3)
			_ = sendPart(it, it.data, it.hash, "", it.tiles[0]) // a late duplicate part
		case "stray-delivered":
			deliverWhole(it, it.data)
			p := filepath.Join(rs.StageDir, it.Name+".part")
			_ = os.MkdirAll(filepath.Dir(p), 0o755)
			_ = os.WriteFile(p, it.data[:len(it.data)/2], 0o644)
		case "stray-unknown":
			p := filepath.Join(rs.StageDir, it.Name+".part")
			_ = os.MkdirAll(filepath.Dir(p), 0o755)
			_ = os.WriteFile(p, it.data[:len(it.data)/2], 0o644)
		case "delivered":
			deliverWhole(it, it.data)
		}
	}
	synctest.Wait()
	delivered := map[string]bool{} // name|hash delivered or logged
	noteDelivered := func() {
		for _, d := range rs.Disp.Events() {
			delivered[d.Rel+"|"+d.MD5] = true
		}
		for _, l := range rs.Log.Recs() {
			delivered[l.Name+"|"+l.Hash] = true
		}
	}
	if rng.Intn(3) == 0 {
		noteDelivered()
		// the receiver is restarted before the cleaning: its in-memory records are
		// rebuilt from the log and the staging area
		sc.Reboot = true
		for k := range stallFull {
			delete(stallFull, k)
		}
		rs.reboot(false)
		rs.Stage.Recover()
		synctest.Wait()
		time.Sleep(3 * time.Second)
		synctest.Wait()
	}
	// an empty directory or two
	emptyOld := filepath.Join(rs.StageDir, "empty", "old")
	emptyNew := filepath.Join(rs.StageDir, "empty2", "new")
	_ = os.MkdirAll(emptyOld, 0o755)
	_ = os.MkdirAll(emptyNew, 0o755)

	// ---- set ages (files, then directories bottom-up)
	now := time.Now()
	ageOf := map[string]time.Duration{}
	for _, it := range sc.Items {
		ageOf[it.Name] = time.Duration(it.AgeH * float64(time.Hour))
	}
	_ = filepath.Walk(rs.StageDir, func(p string, info os.FileInfo, err error) error {
		if err != nil || info.IsDir() {
			return nil
		}
		rel, _ := filepath.Rel(rs.StageDir, p)
		for nm, a := range ageOf {
			if strings.HasPrefix(rel, nm) {
				t := now.Add(-a)
				_ = os.Chtimes(p, t, t)
			}
		}
		return nil
	})
	sc.Prune = []float64{0, 1, 48}[rng.Intn(3)]
	pruneAge := time.Duration(sc.Prune * float64(time.Hour))
	var dirs []string
	_ = filepath.Walk(rs.Root, func(p string, info os.FileInfo, err error) error {
		if err == nil && info.IsDir() {
			dirs = append(dirs, p)
		}
		return nil
	})
	for i := len(dirs) - 1; i >= 0; i-- {
		a := time.Duration(rng.Intn(100)) * time.Hour
		if dirs[i] == emptyNew {
			a = 0
		}
		if dirs[i] == emptyOld {
			a = 90 * time.Hour
		}
		t := now.Add(-a)
		_ = os.Chtimes(dirs[i], t, t)
	}

	if rng.Intn(4) == 0 {
		// the receive log has a damaged day file in the window the cleaner searches: a run
		// of NULs where a crash interrupted a write, 1-3 days back (no record is lost:
		// nothing was delivered then)
		day := time.Now().Add(-time.Duration(1+rng.Intn(3)) * 24 * time.Hour).Local()
		p := filepath.Join(rs.LogDir, day.Format("200601"), day.Format("02"))
		_ = os.MkdirAll(filepath.Dir(p), 0o755)
		junk := append([]byte("x/never.dat:00000000000000000000000000000000:1:1600000000:\n"), make([]byte, 70000+rng.Intn(70000))...)
		if os.WriteFile(p, junk, 0o644) == nil {
			sc.Note = "damaged receive-log day file " + day.Format("20060102")
			res.Count("scenarios_with_a_damaged_log_day_file", 1)
		}
	}
	statusOf := func() map[string]int {
		out := map[string]int{}
		for _, it := range sc.Items {
			out[it.Name] = rs.Stage.GetFileStatus(it.Name, ftime)
		}
		return out
	}
	before := snapshotTree(rs.StageDir)
	beforeFinal := snapshotTree(rs.FinalDir)
	stBefore := statusOf()
	// companions as they were (hash per name)
	cmpHash := map[string]string{}
	// (read directly: Stage.Scan takes the per-file locks, one of which a stalled
	// validation may be holding)
	for _, it := range sc.Items {
		if b, err := os.ReadFile(filepath.Join(rs.StageDir, it.Name+".cmp")); err == nil {
			var cp struct {
				Hash string `json:"hash"`
			}
			if json.Unmarshal(b, &cp) == nil {
				cmpHash[it.Name] = cp.Hash
			}
		}
	}
	noteDelivered()
	deliveredName := map[string]bool{}
	for k := range delivered {
		deliveredName[strings.SplitN(k, "|", 2)[0]] = true
	}

	// what the receiver reports as held before the cleaning (per acknowledged part)
	heldBefore := map[string]bool{}
	for _, it := range sc.Items {
		if it.State != "in-progress" && it.State != "new-version" && it.State != "resend-after-failed" {
			continue
		}
		for ti, t := range it.tiles {
			if it.got[ti] {
				a := &desc{Name: it.Name, Hash: it.hash, Size: it.Size, Time: ftime, Beg: t.b, End: t.e, Send: it.Size}
				heldBefore[fmt.Sprintf("%s|%d", it.Name, ti)] = rs.Stage.Received([]sts.Binned{a}) == 1
			}
		}
	}

	// ---- clean (on demand, then the timer), prune
	rs.Stage.CleanNow()
	synctest.Wait()
	if rng.Intn(2) == 0 {
		time.Sleep(31 * time.Minute)
		synctest.Wait()
		res.Count("timer_driven_cleanings", 1)
	}
	afterClean := snapshotTree(rs.StageDir)
	rs.Stage.Prune(pruneAge)
	synctest.Wait()
	after := snapshotTree(rs.StageDir)
	afterFinal := snapshotTree(rs.FinalDir)
	stAfter := statusOf()
	res.Count("cleanings", 1)

	itemOf := func(rel string) *c20Item {
		for _, it := range sc.Items {
			if strings.HasPrefix(rel, it.Name+".") && !(it.Twin != "" && strings.HasPrefix(rel, it.Twin)) {
				return it
			}
		}
		return nil
	}
	protected := 0
	strays := 0
	for rel, e := range before {
		if e.isDir {
			continue
		}
		a, still := afterClean[rel]
		it := itemOf(rel)
		if still {
			if a.md5 != e.md5 || a.size != e.size {
				viol("nothing-truncated", "staged-file-modified-by-clean", fmt.Sprintf("%s changed during cleaning (size %d -> %d)", rel, e.size, a.size))
			}
			continue
		}
		// removed by the cleaning
		res.Count("files_removed_by_clean", 1)
		if it == nil {
			continue
		}
		ext := strings.TrimPrefix(rel, it.Name)
		h := cmpHash[it.Name]
		switch {
		case ext == ".full" || ext == ".wait":
			viol("live-data-kept", "removed-live-body", fmt.Sprintf("cleaning removed %s (state %s)", rel, it.State))
		case ext == ".part" || ext == ".cmp":
			ok := false
			if h != "" {
				ok = delivered[it.Name+"|"+h]
			} else {
				ok = deliveredName[it.Name] // companion-less partial: only if that name was delivered
			}
			if !ok {
				fp := "removed-undelivered-partial"
				if it.State == "new-version" {
					fp = "removed-partial-of-new-version-of-delivered-name"
				}
				if it.State == "resend-after-failed" {
					fp = "removed-partial-of-retransmission-after-failed-validation"
				}
				viol("removed-only-if-delivered", fp, fmt.Sprintf("cleaning removed %s (state %s, age %.1f h, companion hash %q) although (name, that hash) was never delivered or logged", rel, it.State, it.AgeH, h))
			}
		}
	}
	for _, it := range sc.Items {
		switch it.State {
		case "in-progress", "new-version", "held", "full-stalled", "resend-after-failed":
			protected++
		case "dup-of-delivered", "stray-delivered", "orphan-cmp", "stray-unknown":
			strays++
		}
		if stBefore[it.Name] != stAfter[it.Name] {
			viol("verdicts-unchanged", "status-changed-by-clean", fmt.Sprintf("%s (state %s): status %d before cleaning, %d after", it.Name, it.State, stBefore[it.Name], stAfter[it.Name]))
		}
	}
	// prune: removed directories were empty and old enough; roots survive
	for rel, e := range afterClean {
		if !e.isDir {
			continue
		}
		if _, still := after[rel]; still {
			continue
		}
		res.Count("dirs_removed_by_prune", 1)
		if rel == "." {
			continue // the source's stage root itself may go when empty and old
		}
		for r2, e2 := range afterClean {
			if !e2.isDir && strings.HasPrefix(r2, rel+string(os.PathSeparator)) {
				viol("prune-only-empty", "pruned-non-empty-dir", fmt.Sprintf("prune removed directory %s which contained %s", rel, r2))
				break
			}
		}
		if now.Sub(e.mtime) < pruneAge-time.Minute && time.Since(e.mtime) < pruneAge {
			viol("prune-only-old", "pruned-young-dir", fmt.Sprintf("prune(min age %s) removed directory %s which is only %s old", pruneAge, rel, time.Since(e.mtime)))
		}
	}
	for rel, e := range beforeFinal {
		if !e.isDir {
			if a, ok := afterFinal[rel]; !ok || a.md5 != e.md5 {
				viol("final-untouched", "delivered-file-touched", fmt.Sprintf("delivered file %s disappeared or changed during clean/prune", rel))
			}
		}
	}

	// ---- resume the paused transfers: completion without retransmission
	for _, it := range sc.Items {
		if it.State != "in-progress" && it.State != "new-version" && it.State != "resend-after-failed" {
			continue
		}
		var ask []sts.Binned
		for ti, t := range it.tiles {
			// (a part the receiver did not report as held even before the cleaning is
			// not the cleaner's doing; that is C09's subject)
			if it.got[ti] && heldBefore[fmt.Sprintf("%s|%d", it.Name, ti)] {
				ask = append(ask, &desc{Name: it.Name, Hash: it.hash, Size: it.Size, Time: ftime, Beg: t.b, End: t.e, Send: it.Size})
			}
		}
		// every part acknowledged before the cleaning must still be on record
		for _, a := range ask {
			if rs.Stage.Received([]sts.Binned{a}) != 1 {
				b, e := a.GetSlice()
				fp := "acknowledged-part-lost-by-clean"
				if it.State == "new-version" {
					fp = "acknowledged-part-of-new-version-lost-by-clean"
				}
				viol("no-retransmission", fp, fmt.Sprintf("%s (state %s, age %.1f h): part %s was acknowledged before the cleaning and is not on record after it - it would have to be sent again", it.Name, it.State, it.AgeH, fmtIv(b, e)))
				break
			}
		}
		for ti, t := range it.tiles {
			if !it.got[ti] {
				_ = sendPart(it, it.data, it.hash, "", t)
			}
		}
		synctest.Wait()
		time.Sleep(15 * time.Second)
		synctest.Wait()
		b, err := os.ReadFile(filepath.Join(rs.FinalDir, it.Name))
		if err != nil || md5hex(b) != it.hash {
			fp := "resumed-transfer-did-not-complete"
			if it.State == "new-version" {
				fp = "resumed-transfer-of-new-version-did-not-complete"
			}
			viol("resumed-completes", fp, fmt.Sprintf("%s (state %s, age %.1f h): after sending only the missing parts the file is not delivered with the right content (err=%v)", it.Name, it.State, it.AgeH, err))
		} else {
			res.Count("resumed_transfers_completed_without_retransmission", 1)
		}
	}
	if protected > 0 && strays > 0 {
		var key []string
		for _, it := range sc.Items {
			key = append(key, fmt.Sprintf("%s@%.1f", it.State, it.AgeH))
		}
		res.NonTrivial(strings.Join(key, ",") + fmt.Sprint(sc.Prune))
	}
	res.Count("protected_items", int64(protected))
	res.Count("stray_items", int64(strays))
	res.Sample(sc)
}
