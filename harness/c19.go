package harness

import (
	"encoding/json"
	"fmt"
	"math/rand"
	"os"
	"path/filepath"
	"sort"
	"strings"
	"time"

	"github.com/arm-doe/sts"
	yaml "gopkg.in/yaml.v2"
)

// C19 — configuration means what it says, also after inheritance and re-encoding.
//
// Generated OUT configurations (YAML and JSON spellings of the same document)
// are parsed by sts.NewConf; the effective per-source / per-tag settings are
// compared with an independent reference implementation of the documented
// inheritance, and with themselves after Marshal -> Unmarshal (the path a
// managed client uses).  The wiring of tags into the running sender is checked
// by the white-box part in package main (inpkg/main).

func init() { register("C19", runC19) }

type c19Doc struct {
	Sources []map[string]any `json:"sources"`
}

type c19Scenario struct {
	YAML string `json:"yaml"`
	Note string `json:"note,omitempty"`
}

// option tables: name -> generator of a non-zero value
var c19SrcDur = []string{"cache-age", "min-age", "max-age", "scan-delay", "timeout", "stat-interval", "poll-delay", "poll-interval"}
var c19SrcInt = []string{"threads", "compress", "poll-attempts", "poll-max-count"}
var c19SrcBool = []string{"stat-payload", "include-hidden"}
var c19TagDur = []string{"last-delay", "delete-delay"}

func c19GenDoc(rng *rand.Rand) *c19Doc {
	doc := &c19Doc{}
	durs := []string{"30s", "5m", "1h30m", "24h", "90s"}
	sizes := []string{"64MiB", "1GiB", "512KiB", "10MiB"}
	nsrc := 1 + rng.Intn(4)
	for i := 0; i < nsrc; i++ {
		s := map[string]any{"name": fmt.Sprintf("src%d", i), "out-dir": fmt.Sprintf("/data/out%d", i), "log-dir": fmt.Sprintf("/data/log%d", i)}
		present := func() int { return rng.Intn(3) } // 0 absent, 1 present, 2 explicit zero / false
		if i == 0 || rng.Intn(2) == 0 {
			t := map[string]any{"name": fmt.Sprintf("target%d", i), "http-host": fmt.Sprintf("host%d:19%02d", i, i)}
			if rng.Intn(2) == 0 {
				t["key"] = fmt.Sprintf("key%d", i)
			}
			if rng.Intn(3) == 0 {
				t["http-path-prefix"] = "/sts"
			}
			s["target"] = t
		}
		for _, k := range c19SrcDur {
			switch present() {
			case 1:
				s[k] = durs[rng.Intn(len(durs))]
			case 2:
				if rng.Intn(3) == 0 {
					s[k] = "0s"
				}
			}
		}
		for _, k := range c19SrcInt {
			switch present() {
			case 1:
				s[k] = 1 + rng.Intn(9)
			case 2:
				if rng.Intn(3) == 0 {
					s[k] = 0
				}
			}
		}
		for _, k := range c19SrcBool {
			switch present() {
			case 1:
				s[k] = "true"
			case 2:
				s[k] = "false"
			}
		}
		if present() == 1 {
			s["bin-size"] = sizes[rng.Intn(len(sizes))]
		}
		if present() == 1 {
			s["error-backoff"] = []string{"1.5", "2", "0"}[rng.Intn(3)]
		}
		if present() == 1 {
			s["group-by"] = []string{`^([a-z]+)\.`, `^([^/]+)/`}[rng.Intn(2)]
		}
		// (pattern lists differ from source to source, so that a list that ends up in
		// another source's place is visible)
		if present() == 1 {
			s["include"] = []string{fmt.Sprintf(`\.dat%d$`, i), `^keep/`, fmt.Sprintf(`^in%d/`, i)}[:1+rng.Intn(3)]
		}
		if present() == 1 {
			s["ignore"] = []string{fmt.Sprintf(`\.tmp%d$`, i), fmt.Sprintf(`^skip%d/`, i), `~$`}[:1+rng.Intn(3)]
		}
		switch present() {
		case 1:
			s["rename"] = []map[string]string{{"from": `^raw/(.*)$`, "to": "ingest/$1"}, {"from": `\.tmp$`, "to": ".dat"}}[:1+rng.Intn(2)]
		case 2:
			s["rename"] = []map[string]string{} // explicitly no renaming rules for this source
		}
		if i == 0 || rng.Intn(2) == 0 {
			ntag := rng.Intn(5)
			var tags []map[string]any
			for j := 0; j < ntag; j++ {
				t := map[string]any{}
				if j == 0 {
					t["pattern"] = "DEFAULT"
				} else {
					t["pattern"] = []string{`^prio/`, `\.raw$`, `^slow\.`, `\.(nc|cdf)$`}[(j-1)%4]
				}
				if present() == 1 {
					t["priority"] = 1 + rng.Intn(5)
				}
				if present() == 1 {
					t["order"] = []string{"fifo", "lifo", "none"}[rng.Intn(3)]
				}
				if present() == 1 {
					t["method"] = []string{"http", "disk", "none"}[rng.Intn(3)]
				}
				if present() == 1 {
					t["chunk-size"] = sizes[rng.Intn(len(sizes))]
				}
				switch present() {
				case 1:
					t["delete"] = "true"
				case 2:
					t["delete"] = "false"
				}
				for _, k := range c19TagDur {
					if present() == 1 {
						t[k] = durs[rng.Intn(len(durs))]
					}
				}
				tags = append(tags, t)
			}
			if len(tags) > 0 {
				s["tags"] = tags
			}
		}
		doc.Sources = append(doc.Sources, s)
	}
	return doc
}

// ---- reference: effective settings as flat string maps

type c19Eff struct {
	Src  map[string]string
	Tags []map[string]string
}

func durStr(v any) string {
	if v == nil {
		return "0s"
	}
	d, err := time.ParseDuration(fmt.Sprint(v))
	if err != nil {
		return "?" + fmt.Sprint(v)
	}
	return d.String()
}

func c19Reference(doc *c19Doc) []c19Eff {
	var out []c19Eff
	var prev *c19Eff
	for _, s := range doc.Sources {
		e := c19Eff{Src: map[string]string{}}
		for _, k := range c19SrcDur {
			e.Src[k] = durStr(s[k])
		}
		for _, k := range c19SrcInt {
			e.Src[k] = "0"
			if v, ok := s[k]; ok {
				e.Src[k] = fmt.Sprint(v)
			}
		}
		for _, k := range c19SrcBool {
			e.Src[k] = "unset"
			if v, ok := s[k]; ok {
				e.Src[k] = fmt.Sprint(v)
			}
		}
		for _, k := range []string{"bin-size", "error-backoff", "group-by"} {
			e.Src[k] = ""
			if v, ok := s[k]; ok {
				e.Src[k] = fmt.Sprint(v)
			}
		}
		for _, k := range []string{"include", "ignore"} {
			e.Src[k] = ""
			if v, ok := s[k]; ok {
				e.Src[k] = strings.Join(v.([]string), "|")
			}
		}
		e.Src["rename"] = "unset"
		if v, ok := s["rename"]; ok {
			var rs []string
			for _, r := range v.([]map[string]string) {
				rs = append(rs, r["from"]+">"+r["to"])
			}
			e.Src["rename"] = strings.Join(rs, "|") // "" = an explicitly empty list
		}
		if t, ok := s["target"].(map[string]any); ok {
			for _, k := range []string{"name", "http-host", "key", "http-path-prefix"} {
				e.Src["target."+k] = ""
				if v, ok := t[k]; ok {
					e.Src["target."+k] = fmt.Sprint(v)
				}
			}
			e.Src["target"] = "set"
		}
		if tl, ok := s["tags"].([]map[string]any); ok {
			for _, t := range tl {
				te := map[string]string{"priority": "0", "order": "", "method": "", "chunk-size": "", "delete": "unset", "pattern": ""}
				for _, k := range c19TagDur {
					te[k] = durStr(t[k])
				}
				for _, k := range []string{"priority", "order", "method", "chunk-size", "delete"} {
					if v, ok := t[k]; ok {
						te[k] = fmt.Sprint(v)
					}
				}
				if p := fmt.Sprint(t["pattern"]); p != "DEFAULT" {
					te["pattern"] = p
				}
				e.Tags = append(e.Tags, te)
			}
		}
		// inheritance from the preceding source (after its own inheritance)
		if prev != nil {
			for k, pv := range prev.Src {
				cur, ok := e.Src[k]
				zero := !ok || cur == "" || cur == "0" || cur == "0s" || cur == "unset"
				if k == "error-backoff" && ok && cur != "" {
					zero = false // explicitly given, even "0"
				}
				if (k == "stat-payload" || k == "include-hidden") && cur == "false" {
					zero = false // an explicit false is never overridden
				}
				if k == "rename" {
					zero = cur == "unset" // an explicitly empty list is a given value
				}
				if strings.HasPrefix(k, "target.") {
					continue
				}
				if zero {
					e.Src[k] = pv
				}
			}
			if e.Src["target"] == "" {
				for k, pv := range prev.Src {
					if strings.HasPrefix(k, "target") {
						e.Src[k] = pv
					}
				}
			} else {
				for k, pv := range prev.Src {
					if strings.HasPrefix(k, "target.") && e.Src[k] == "" {
						e.Src[k] = pv
					}
				}
			}
			if e.Tags == nil {
				for _, t := range prev.Tags {
					c := map[string]string{}
					for k, v := range t {
						c[k] = v
					}
					e.Tags = append(e.Tags, c)
				}
			}
		}
		// tags j>0 inherit from tag 0
		if len(e.Tags) > 1 {
			t0 := e.Tags[0]
			for j := 1; j < len(e.Tags); j++ {
				for k, v0 := range t0 {
					cur := e.Tags[j][k]
					zero := cur == "" || cur == "0" || cur == "0s" || cur == "unset"
					if k == "delete" && cur == "false" {
						zero = false
					}
					if zero {
						e.Tags[j][k] = v0
					}
				}
			}
		}
		out = append(out, e)
		cp := e
		prev = &cp
	}
	return out
}

// ---- actual: flatten what the parser produced

func normBool(b, set bool) string {
	if b {
		return "true"
	}
	if set {
		return "false"
	}
	return "unset"
}

func c19Actual(conf *sts.ClientConf) []c19Eff {
	var out []c19Eff
	for _, s := range conf.Sources {
		e := c19Eff{Src: map[string]string{}}
		e.Src["cache-age"] = s.CacheAge.String()
		e.Src["min-age"] = s.MinAge.String()
		e.Src["max-age"] = s.MaxAge.String()
		e.Src["scan-delay"] = s.ScanDelay.String()
		e.Src["timeout"] = s.Timeout.String()
		e.Src["stat-interval"] = s.StatInterval.String()
		e.Src["poll-delay"] = s.PollDelay.String()
		e.Src["poll-interval"] = s.PollInterval.String()
		e.Src["threads"] = fmt.Sprint(s.Threads)
		e.Src["compress"] = fmt.Sprint(s.Compression)
		e.Src["poll-attempts"] = fmt.Sprint(s.PollAttempts)
		e.Src["poll-max-count"] = fmt.Sprint(s.PollMaxCount)
		e.Src["stat-payload"] = fmt.Sprint(s.StatPayload)
		e.Src["include-hidden"] = fmt.Sprint(s.IncludeHidden)
		e.Src["bin-size"] = ""
		if s.BinSize != 0 {
			e.Src["bin-size"] = s.BinSize.String()
		}
		e.Src["error-backoff"] = fmt.Sprint(s.ErrorBackoff)
		e.Src["group-by"] = ""
		if s.GroupBy != nil {
			e.Src["group-by"] = s.GroupBy.String()
		}
		var inc, ign []string
		for _, p := range s.Include {
			inc = append(inc, p.String())
		}
		for _, p := range s.Ignore {
			ign = append(ign, p.String())
		}
		e.Src["include"] = strings.Join(inc, "|")
		e.Src["ignore"] = strings.Join(ign, "|")
		e.Src["rename"] = "unset"
		if s.Rename != nil {
			var rs []string
			for _, r := range s.Rename {
				rs = append(rs, r.Pattern.String()+">"+r.Template)
			}
			e.Src["rename"] = strings.Join(rs, "|")
		}
		if s.Target != nil {
			e.Src["target"] = "set"
			e.Src["target.name"] = s.Target.Name
			e.Src["target.http-host"] = s.Target.Host
			e.Src["target.key"] = s.Target.Key
			e.Src["target.http-path-prefix"] = s.Target.PathPrefix
		}
		for _, t := range s.Tags {
			te := map[string]string{}
			te["priority"] = fmt.Sprint(t.Priority)
			te["order"] = t.Order
			te["method"] = t.Method
			te["chunk-size"] = ""
			if t.ChunkSize != 0 {
				te["chunk-size"] = t.ChunkSize.String()
			}
			te["delete"] = fmt.Sprint(t.Delete)
			te["last-delay"] = t.LastDelay.String()
			te["delete-delay"] = t.DeleteDelay.String()
			te["pattern"] = ""
			if t.Pattern != nil {
				te["pattern"] = t.Pattern.String()
			}
			e.Tags = append(e.Tags, te)
		}
		out = append(out, e)
	}
	return out
}

// compare reference (tri-state strings) with actual (plain values)
func c19Same(k, ref, act string) bool {
	if k == "rename" {
		return ref == act
	}
	switch ref {
	case "unset":
		return act == "false"
	}
	if k == "bin-size" || k == "chunk-size" {
		return normSize(ref) == normSize(act)
	}
	if k == "error-backoff" {
		if ref == "" {
			return act == "0"
		}
		var a, b float64
		fmt.Sscan(ref, &a)
		fmt.Sscan(act, &b)
		return a == b
	}
	return ref == act
}

func normSize(s string) string {
	return strings.TrimSuffix(s, "B")
}

func runC19(c *Ctx) {
	n := c.N(3000, 100000)
	dir := filepath.Join(c.Work, "c19")
	_ = os.MkdirAll(dir, 0o755)
	for i := 0; i < n; i++ {
		if !c.Mine(i) {
			continue
		}
		rng := c.Rng(i)
		sc := &c19Scenario{}
		c.Guard(i, sc, func() { c19One(c, i, rng, sc, dir) })
	}
	os.RemoveAll(dir)
}

func c19One(c *Ctx, idx int, rng *rand.Rand, sc *c19Scenario, dir string) {
	res := c.Res
	res.Eval()
	viol := func(clause, fp, detail string) {
		res.Violate(Violation{Clause: clause, Fingerprint: "C19/" + fp, Detail: detail, Scenario: sc, Index: idx})
	}
	doc := c19GenDoc(rng)
	wrap := map[string]any{"OUT": map[string]any{"dirs": map[string]any{"cache": ".sts", "logs": "logs", "out": "out"}, "sources": doc.Sources}}
	yb, err := yaml.Marshal(wrap)
	if err != nil {
		res.Inconc("yaml marshal: " + err.Error())
		return
	}
	sc.YAML = string(yb)
	wrapJ := map[string]any{"out": map[string]any{"dirs": map[string]any{"cache": ".sts", "logs": "logs", "out": "out"}, "sources": doc.Sources}}
	jb, _ := json.Marshal(wrapJ)
	yp := filepath.Join(dir, fmt.Sprintf("c%d.yaml", idx))
	jp := filepath.Join(dir, fmt.Sprintf("c%d.json", idx))
	_ = os.WriteFile(yp, yb, 0o644)
	_ = os.WriteFile(jp, jb, 0o644)
	defer os.Remove(yp)
	defer os.Remove(jp)
	cy, err := sts.NewConf(yp)
	if err != nil || cy == nil || cy.Client == nil {
		viol("parses", "yaml-parse-error", fmt.Sprintf("generated YAML document rejected: %v", err))
		return
	}
	cj, err := sts.NewConf(jp)
	if err != nil || cj == nil || cj.Client == nil {
		viol("parses", "json-parse-error", fmt.Sprintf("generated JSON document rejected: %v", err))
		return
	}
	ref := c19Reference(doc)
	actY := c19Actual(cy.Client)
	actJ := c19Actual(cj.Client)
	cmp := func(what string, act []c19Eff) bool {
		if len(act) != len(ref) {
			viol("inheritance", "source-count", fmt.Sprintf("%s: %d sources parsed, %d written", what, len(act), len(ref)))
			return false
		}
		ok := true
		for i := range ref {
			keys := make([]string, 0, len(ref[i].Src))
			for k := range ref[i].Src {
				keys = append(keys, k)
			}
			sort.Strings(keys)
			for _, k := range keys {
				if k == "target" {
					continue
				}
				if !c19Same(k, ref[i].Src[k], act[i].Src[k]) {
					fp := "source-option/" + k
					if doc.Sources[i][k] == "false" {
						fp = "explicit-false-overridden/" + k
					}
					viol("inheritance", fp, fmt.Sprintf("%s: source %d option %s: effective %q, documented inheritance gives %q (written: %v)", what, i, k, act[i].Src[k], ref[i].Src[k], doc.Sources[i][k]))
					ok = false
				}
			}
			if len(ref[i].Tags) != len(act[i].Tags) {
				viol("inheritance", "tag-count", fmt.Sprintf("%s: source %d has %d tags, expected %d", what, i, len(act[i].Tags), len(ref[i].Tags)))
				ok = false
				continue
			}
			for j := range ref[i].Tags {
				for k, rv := range ref[i].Tags[j] {
					if !c19Same(k, rv, act[i].Tags[j][k]) {
						viol("inheritance", "tag-option/"+k, fmt.Sprintf("%s: source %d tag %d option %s: effective %q, documented inheritance gives %q", what, i, j, k, act[i].Tags[j][k], rv))
						ok = false
					}
				}
			}
		}
		return ok
	}
	okY := cmp("YAML", actY)
	okJ := cmp("JSON", actJ)
	if fmt.Sprint(actY) != fmt.Sprint(actJ) {
		viol("spellings-agree", "yaml-json-differ", "the YAML and JSON spellings of the same document give different effective settings")
	}
	// re-encoding: Marshal -> Unmarshal must keep the effective configuration
	if okY {
		enc, err := json.Marshal(cy.Client)
		if err != nil {
			viol("re-encoding", "marshal-error", err.Error())
		} else {
			// encoding must not change the configuration it encodes (the running program
			// keeps using the object, and encodes it again for the next request)
			actAfter := c19Actual(cy.Client)
			for i := range actY {
				if i >= len(actAfter) {
					break
				}
				for k, v := range actY[i].Src {
					if actAfter[i].Src[k] != v {
						viol("re-encoding", "marshal-changed-source-option/"+k, fmt.Sprintf("source %d option %s was %q; after json.Marshal of the configuration the same object says %q", i, k, v, actAfter[i].Src[k]))
					}
				}
				for j := range actY[i].Tags {
					if j >= len(actAfter[i].Tags) {
						break
					}
					for k, v := range actY[i].Tags[j] {
						if actAfter[i].Tags[j][k] != v {
							viol("re-encoding", "marshal-changed-tag-option/"+k, fmt.Sprintf("source %d tag %d option %s was %q; after json.Marshal the same object says %q", i, j, k, v, actAfter[i].Tags[j][k]))
						}
					}
				}
			}
			back := &sts.ClientConf{}
			if err := json.Unmarshal(enc, back); err != nil {
				viol("re-encoding", "re-parse-error", fmt.Sprintf("the parser rejects its own JSON encoding: %v", err))
			} else {
				actB := c19Actual(back)
				if len(actB) != len(actY) {
					viol("re-encoding", "reencode-source-count", "number of sources changed")
				} else {
					for i := range actY {
						for k, v := range actY[i].Src {
							if actB[i].Src[k] != v {
								viol("re-encoding", "reencode-source-option/"+k, fmt.Sprintf("source %d option %s: %q before Marshal/Unmarshal, %q after", i, k, v, actB[i].Src[k]))
							}
						}
						if len(actB[i].Tags) != len(actY[i].Tags) {
							viol("re-encoding", "reencode-tag-count", fmt.Sprintf("source %d: %d tags before, %d after", i, len(actY[i].Tags), len(actB[i].Tags)))
							continue
						}
						for j := range actY[i].Tags {
							for k, v := range actY[i].Tags[j] {
								if actB[i].Tags[j][k] != v {
									viol("re-encoding", "reencode-tag-option/"+k, fmt.Sprintf("source %d tag %d option %s: %q before Marshal/Unmarshal, %q after", i, j, k, v, actB[i].Tags[j][k]))
								}
							}
						}
					}
				}
			}
		}
	}
	_ = okJ
	res.Count("documents", 1)
	ntags := 0
	absent, falses := false, false
	for _, s := range doc.Sources {
		if tl, ok := s["tags"].([]map[string]any); ok {
			ntags += len(tl)
		}
		for _, k := range c19SrcBool {
			if v, ok := s[k]; !ok {
				absent = true
			} else if v == "false" {
				falses = true
			}
		}
	}
	if (len(doc.Sources) >= 2 || ntags >= 2) && absent && falses {
		res.NonTrivial(sc.YAML)
	}
	if len(sc.YAML) < 2500 {
		res.Sample(sc)
	}
}
