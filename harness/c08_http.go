package harness

import (
	"fmt"
	"math/rand"
	"time"

	stshttp "github.com/arm-doe/sts/http"
	"github.com/arm-doe/sts/stage"
)

// C08 (HTTP lane) - what the real http.Client reports to the send loop.
//
// Transmit / RecoverTransmission return "n = how many leading parts of this
// payload the receiver has recorded".  Here the real client talks to the real
// server routes over loopback; the GateKeeper behind them records what it was
// given and can be made unavailable (503), refused by the validator (403), or
// fail at a chosen part (partial-content answer).  Oracle: the n returned never
// exceeds the number of leading parts the GateKeeper recorded without error.

type c08hScenario struct {
	Parts  int    `json:"parts"`
	Fault  string `json:"fault"`
	FailAt int    `json:"fail_at_part,omitempty"`
	Gzip   int    `json:"gzip"`
	N      int    `json:"n_returned"`
	Err    string `json:"error_returned"`
	Held   int    `json:"leading_parts_recorded"`
}

func runC08HTTP(c *Ctx) {
	srv := startC13Server(c)
	if srv == nil {
		c.Res.Inconc("could not start the HTTP server on any port")
		return
	}
	defer srv.stop()
	n := c.N(240, 6000)
	for i := 0; i < n; i++ {
		idx := 6_000_000 + i
		if !c.Mine(idx) {
			continue
		}
		rng := c.Rng(idx)
		sc := &c08hScenario{}
		c.Guard(idx, sc, func() { c08HTTPRun(c, idx, rng, sc, srv) })
	}
}

func c08HTTPRun(c *Ctx, idx int, rng *rand.Rand, sc *c08hScenario, srv *c13Server) {
	res := c.Res
	res.Eval()
	viol := func(clause, fp, detail string) {
		res.Violate(Violation{Clause: clause, Fingerprint: "C08/" + fp, Detail: detail, Scenario: sc, Index: idx})
	}
	source := fmt.Sprintf("c08src%d", idx)
	sc.Gzip = []int{0, 0, 1, 9, -1}[rng.Intn(5)]
	tmp := &c13Scenario{}
	bin, _, bs := c13Build(rng, tmp, "/")
	sc.Parts = len(bs)
	gk := srv.gk(source)
	sc.Fault = []string{"unavailable-503", "refused-403", "fail-part", "fail-part", "none"}[rng.Intn(5)]
	gk.mu.Lock()
	gk.recvd, gk.calls, gk.failAt, gk.notReady, gk.held = nil, 0, 0, false, -1
	gk.mu.Unlock()
	switch sc.Fault {
	case "unavailable-503":
		gk.mu.Lock()
		gk.notReady = true
		gk.mu.Unlock()
	case "refused-403":
		srv.mu.Lock()
		srv.denied[source] = true
		srv.mu.Unlock()
	case "fail-part":
		sc.FailAt = 1 + rng.Intn(len(bs))
		gk.mu.Lock()
		gk.failAt = sc.FailAt
		gk.mu.Unlock()
	}
	cl := &stshttp.Client{SourceName: source, TargetHost: "127.0.0.1", TargetPort: srv.port, Compression: sc.Gzip,
		Timeout: 20 * time.Second, PartialsDecoder: stage.ReadCompanions}
	defer cl.Destroy()
	n, err := cl.Transmit(bin)
	sc.N = n
	if err != nil {
		sc.Err = err.Error()
	}
	gk.mu.Lock()
	held := 0
	for _, p := range gk.recvd {
		if p.Err != "" {
			break
		}
		held++
	}
	gk.mu.Unlock()
	sc.Held = held
	res.Count("http_transmissions", 1)
	res.Count("http_fault_"+sc.Fault, 1)
	if n > held {
		viol("counts-only-recorded-parts", "http-transmit-reports-unrecorded-parts", fmt.Sprintf("Transmit over HTTP (%s, %d parts) returned n=%d (err %v) but the receiver recorded only %d leading part(s)", sc.Fault, len(bs), n, err, held))
	}
	if sc.Fault == "none" && (err != nil || n != len(bs)) {
		viol("counts-only-recorded-parts", "http-transmit-failed", fmt.Sprintf("fault-free Transmit returned n=%d err=%v for %d parts", n, err, len(bs)))
	}
	if sc.Fault != "none" && err == nil && held < len(bs) {
		viol("counts-only-recorded-parts", "http-transmit-silent-failure", fmt.Sprintf("Transmit (%s) returned no error although only %d of %d parts were recorded", sc.Fault, held, len(bs)))
	}
	// the follow-up question "how many of these parts do you hold" must be passed on truthfully
	if sc.Fault != "none" {
		want := held
		gk.mu.Lock()
		gk.held = want
		gk.notReady = rng.Intn(3) == 0 && sc.Fault == "unavailable-503" // sometimes still unavailable
		stillDown := gk.notReady
		gk.mu.Unlock()
		n2, err2 := cl.RecoverTransmission(bin)
		res.Count("http_recovery_requests", 1)
		if stillDown || sc.Fault == "refused-403" {
			if n2 > 0 && err2 == nil {
				viol("counts-only-recorded-parts", "http-recovery-reports-parts-while-refused", fmt.Sprintf("RecoverTransmission returned n=%d without error while the receiver refuses requests (%s)", n2, sc.Fault))
			}
		} else if err2 == nil && n2 != want {
			viol("counts-only-recorded-parts", "http-recovery-count-wrong", fmt.Sprintf("RecoverTransmission returned n=%d, the receiver reported %d", n2, want))
		}
	}
	srv.mu.Lock()
	delete(srv.denied, source)
	srv.mu.Unlock()
	if sc.Fault != "none" {
		res.NonTrivial(fmt.Sprintf("c08h/%d/%s/%d/%d", sc.Parts, sc.Fault, sc.FailAt, sc.Gzip))
	}
	res.Sample(sc)
}
