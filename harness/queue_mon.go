package harness

import (
	"fmt"
	"math/rand"
	"sort"
	"strings"
	"time"

	"github.com/arm-doe/sts"
	"github.com/arm-doe/sts/client"
	"github.com/arm-doe/sts/queue"
)

// Component monitor on queue.Tagged (exported API only, plus the real resumed-
// file allocator of package client obtained through the injected constructor).
// One generator of Push/Pop histories, one executable reference model, three
// oracles: C10 (order + predecessor chain), C11 (chunk tiling), C12 (priority,
// rotation, last-file delay).

func init() {
	register("C10", func(c *Ctx) { runQueue(c, "C10") })
	register("C12", func(c *Ctx) { runQueue(c, "C12") })
}

// qFile implements sts.Hashed (and sts.Cached so that it can be wrapped by the
// real recoverFile)
type qFile struct {
	name string
	size int64
	time time.Time
	hash string
	done bool
}

func (f *qFile) GetPath() string    { return "/out/" + f.name }
func (f *qFile) GetName() string    { return f.name }
func (f *qFile) GetSize() int64     { return f.size }
func (f *qFile) GetTime() time.Time { return f.time }
func (f *qFile) GetMeta() []byte    { return nil }
func (f *qFile) GetHash() string    { return f.hash }
func (f *qFile) IsDone() bool       { return f.done }

type rng2 struct{ Beg, End int64 }

// model file
type mFile struct {
	name      string
	time      time.Time
	size      int64
	seq       int
	recovered bool
	rprev     string
	left      []rng2 // missing ranges of a resumed file
	part      int
	used      int64
	alloc     int64
	chunks    []rng2 // what the model expects to have been handed out so far
}

func (f *mFile) allocated() bool {
	if f.recovered {
		return f.part == len(f.left)
	}
	return f.alloc == f.size
}

func (f *mFile) sendSize() int64 {
	if f.recovered {
		var n int64
		for _, r := range f.left {
			n += r.End - r.Beg
		}
		return n
	}
	return f.size
}

// next allocation per the documented rule
func (f *mFile) next(chunk int64) (off, n int64) {
	if f.recovered {
		r := f.left[f.part]
		off = r.Beg + f.used
		n = chunk
		if off+n >= r.End {
			n = r.End - off
		}
		return
	}
	off = f.alloc
	n = chunk
	if chunk == 0 || off+n > f.size {
		n = f.size - off
	}
	return
}

func (f *mFile) advance(chunk int64) {
	off, n := f.next(chunk)
	if f.recovered {
		f.used += n
		if off+n >= f.left[f.part].End {
			f.part++
			f.used = 0
		}
		return
	}
	f.alloc += n
}

type mGroup struct {
	name    string
	tag     *queue.Tag
	pending []*mFile
	last    string // most recent file that left the front (completed or skipped placeholder)
	chainOK bool   // false when the model knows the implementation dropped the chain (documented weakness)
}

func (g *mGroup) less(a, b *mFile) bool {
	switch g.tag.Order {
	case sts.OrderAlpha:
		return a.name < b.name
	case sts.OrderFIFO:
		if a.time.Equal(b.time) {
			return a.name < b.name
		}
		return a.time.Before(b.time)
	case sts.OrderLIFO:
		if a.time.Equal(b.time) {
			return a.name < b.name
		}
		return a.time.After(b.time)
	}
	return a.seq < b.seq
}

// skip leading placeholders the way the property describes: fully allocated
// files that are followed by another file only serve as predecessors
func (g *mGroup) skip() {
	for len(g.pending) > 1 && g.pending[0].allocated() {
		g.last = g.pending[0].name
		g.pending = g.pending[1:]
	}
}

// ready does not mutate: leading placeholders are looked past, not removed (the
// implementation removes them only from groups its scan actually visits)
func (g *mGroup) ready(now time.Time) bool {
	i := 0
	for i < len(g.pending)-1 && g.pending[i].allocated() {
		i++
	}
	if i >= len(g.pending) || g.pending[i].allocated() {
		return false
	}
	if g.tag.LastDelay > 0 && i == len(g.pending)-1 {
		if now.Sub(g.pending[i].time) < g.tag.LastDelay {
			return false
		}
	}
	return true
}

type qOp struct {
	Op    string   `json:"op"`
	Files []string `json:"files,omitempty"`
	Got   string   `json:"got,omitempty"`
}

type qScenario struct {
	Tags   []string `json:"tags"`
	Groups []string `json:"groups"`
	Ops    []qOp    `json:"ops"`
}

func runQueue(c *Ctx, prop string) {
	n := c.N(5000, 300000)
	for i := 0; i < n; i++ {
		if !c.Mine(i) {
			continue
		}
		rng := c.Rng(i)
		sc := &qScenario{}
		c.Guard(i, sc, func() {
			bubble(c.T, func() { queueHistory(c, prop, i, rng, sc) })
		})
	}
}

func queueHistory(c *Ctx, prop string, idx int, rng *rand.Rand, sc *qScenario) {
	res := c.Res
	res.Eval()
	viol := func(p, clause, fp, detail string) {
		if p != prop {
			return // judged by the other property's check
		}
		s := *sc
		if len(s.Ops) > 60 {
			s.Ops = s.Ops[len(s.Ops)-60:]
		}
		res.Violate(Violation{Clause: clause, Fingerprint: p + "/" + fp, Detail: detail, Scenario: &s, Index: idx})
	}
	// ---- configuration
	orders := []string{sts.OrderFIFO, sts.OrderLIFO, sts.OrderAlpha, sts.OrderNone, "arrival"}
	ntags := 1 + rng.Intn(3)
	nprio := 1 + rng.Intn(3)
	var tags []*queue.Tag
	for t := 0; t < ntags; t++ {
		tg := &queue.Tag{Name: fmt.Sprintf("t%d", t), Priority: rng.Intn(nprio), Order: orders[rng.Intn(len(orders))]}
		switch rng.Intn(4) {
		case 0:
			tg.ChunkSize = 0
		default:
			tg.ChunkSize = int64(1 + rng.Intn(3000))
		}
		if prop == "C12" && rng.Intn(3) == 0 || prop != "C12" && rng.Intn(8) == 0 {
			tg.LastDelay = time.Duration(1+rng.Intn(600)) * time.Second
		}
		tags = append(tags, tg)
		sc.Tags = append(sc.Tags, fmt.Sprintf("%s prio=%d order=%q chunk=%d delay=%s", tg.Name, tg.Priority, tg.Order, tg.ChunkSize, tg.LastDelay))
	}
	ngroups := 1 + rng.Intn(5)
	if prop == "C12" {
		ngroups = 2 + rng.Intn(7)
	}
	groupTag := map[string]*queue.Tag{}
	var gnames []string
	for g := 0; g < ngroups; g++ {
		gn := fmt.Sprintf("g%d", g)
		gnames = append(gnames, gn)
		groupTag[gn] = tags[rng.Intn(len(tags))]
		sc.Groups = append(sc.Groups, gn+"->"+groupTag[gn].Name)
	}
	grouper := func(name string) string {
		if i := strings.Index(name, "/"); i > 0 {
			return name[:i]
		}
		return name
	}
	tagger := func(group string) string {
		if t, ok := groupTag[group]; ok {
			return t.Name
		}
		return "none"
	}
	q := queue.NewTagged(tags, tagger, grouper)
	// ---- model
	time.Sleep(time.Duration(1+rng.Intn(1000)) * time.Hour)
	groups := map[string]*mGroup{}
	var gorder []*mGroup // creation order, for reporting only
	var glist []*mGroup  // model of the scan list (priority-sorted, rotated on service)
	diverged := false    // the implementation served another group than the scan-list model predicts
	pushedTwice := false
	everPushed := map[string]int{}
	lastPrev := map[string]string{} // name -> last announced predecessor
	seq := 0
	// C12 bookkeeping: per group the step of its last service and the set of
	// same-priority groups that have been ready at every step since then
	type since struct {
		step   int
		always map[string]bool // groups ready at every pop since
		served map[string]bool
	}
	lastServed := map[string]*since{}
	step := 0
	multiReady := false
	held := false
	late := false

	nameCounter := 0
	newName := func(g string) string {
		nameCounter++
		// names whose alphabetical order differs from creation order
		return fmt.Sprintf("%s/f%03d", g, (nameCounter*37)%1000)
	}
	mkTime := func() time.Time {
		// file times around "now", some equal
		base := time.Now().Add(-time.Duration(rng.Intn(1200)) * time.Second)
		if rng.Intn(4) == 0 {
			base = base.Truncate(10 * time.Minute)
		}
		return base
	}
	modelPush := func(mf *mFile) {
		gn := grouper(mf.name)
		g := groups[gn]
		if g == nil {
			g = &mGroup{name: gn, tag: groupTag[gn], chainOK: true}
			groups[gn] = g
			gorder = append(gorder, g)
			// scan list: in front of the first group of lower priority, else at the end
			at := len(glist)
			for i, x := range glist {
				if g.tag.Priority > x.tag.Priority {
					at = i
					break
				}
			}
			glist = append(glist, nil)
			copy(glist[at+1:], glist[at:])
			glist[at] = g
		}
		// same name already pending: start over
		for i, p := range g.pending {
			if p.name == mf.name {
				g.pending = append(g.pending[:i:i], g.pending[i+1:]...)
				pushedTwice = true
				break
			}
		}
		mf.seq = seq
		seq++
		if len(g.pending) > 0 && g.less(mf, g.pending[0]) && (g.pending[0].alloc > 0 || g.pending[0].part > 0 || g.pending[0].used > 0) {
			late = true // arrives before a half-emitted file
		}
		g.pending = append(g.pending, mf)
		sort.SliceStable(g.pending, func(i, j int) bool { return g.less(g.pending[i], g.pending[j]) })
	}

	nops := 20 + rng.Intn(180)
	if prop == "C12" && rng.Intn(5) == 0 {
		nops += 400 // one huge backlog
	}
	popBias := 2 + rng.Intn(3)
	for op := 0; op < nops; op++ {
		if rng.Intn(12) == 0 {
			time.Sleep(time.Duration(rng.Intn(400)) * time.Second)
		}
		if rng.Intn(popBias+1) == 0 || op == 0 {
			// ---- Push a batch
			nb := 1 + rng.Intn(4)
			if rng.Intn(10) == 0 {
				nb = 10 + rng.Intn(30)
			}
			var batch []sts.Hashed
			var names []string
			for b := 0; b < nb; b++ {
				gn := gnames[rng.Intn(len(gnames))]
				var name string
				if len(everPushed) > 0 && rng.Intn(9) == 0 {
					// push a known name again (same group)
					for k := range everPushed {
						name = k
						break
					}
				} else {
					name = newName(gn)
				}
				dup := false
				for _, x := range names {
					if x == name {
						dup = true
					}
				}
				if dup {
					continue
				}
				size := int64(1 + rng.Intn(5000))
				switch rng.Intn(6) {
				case 0:
					size = int64(1 + rng.Intn(3))
				case 1:
					if cs := groupTag[grouper(name)].ChunkSize; cs > 0 {
						size = cs*int64(1+rng.Intn(3)) + int64(rng.Intn(3)-1)
						if size < 1 {
							size = 1
						}
					}
				}
				f := &qFile{name: name, size: size, time: mkTime(), hash: fmt.Sprintf("h%d", seq)}
				mf := &mFile{name: name, time: f.time, size: size}
				var pushed sts.Hashed = f
				kind := rng.Intn(10)
				cs := groupTag[grouper(name)].ChunkSize
				switch {
				case kind == 0:
					// placeholder: already sent, fully allocated
					mf.recovered = true
					mf.rprev = ""
					pushed = client.ZZNewRecoverFile(f, "", nil)
				case kind == 1 && cs > 0:
					// resumed file with missing ranges and its own predecessor
					mf.recovered = true
					mf.rprev = fmt.Sprintf("%s/old%d", grouper(name), rng.Intn(3))
					switch rng.Intn(8) {
					case 0:
						mf.rprev = name // stored predecessor equal to own name
					case 1, 2:
						mf.rprev = "" // it was the first of its group when it was first sent: it announced none
					}
					var left []*sts.ByteRange
					pos := int64(0)
					for pos < size && len(left) < 6 {
						gap := int64(rng.Intn(int(size-pos) + 1))
						beg := pos + gap
						if beg >= size {
							break
						}
						ln := int64(1 + rng.Intn(int(size-beg)))
						if rng.Intn(3) == 0 {
							ln = 1
						}
						left = append(left, &sts.ByteRange{Beg: beg, End: beg + ln})
						mf.left = append(mf.left, rng2{beg, beg + ln})
						pos = beg + ln + int64(rng.Intn(3))
					}
					if len(left) == 0 {
						left = []*sts.ByteRange{{Beg: 0, End: size}}
						mf.left = []rng2{{0, size}}
					}
					pushed = client.ZZNewRecoverFile(f, mf.rprev, left)
				}
				batch = append(batch, pushed)
				names = append(names, name)
				everPushed[name]++
				if everPushed[name] > 1 {
					pushedTwice = true
				}
				modelPush(mf)
			}
			q.Push(batch)
			sc.Ops = append(sc.Ops, qOp{Op: "push", Files: names})
			res.Count("pushes", int64(len(names)))
			continue
		}
		// ---- Pop
		now := time.Now()
		var readyNow []*mGroup
		maxPrio := -1 << 30
		for _, g := range gorder {
			if g.tag == nil {
				continue
			}
			if g.ready(now) {
				readyNow = append(readyNow, g)
				if g.tag.Priority > maxPrio {
					maxPrio = g.tag.Priority
				}
			} else if g.tag.LastDelay > 0 && len(g.pending) == 1 && !g.pending[0].allocated() {
				held = true
			}
		}
		if len(readyNow) > 1 {
			multiReady = true
		}
		// a peer stays in the "ready throughout" sets only while it is ready at this pop too
		for _, ls := range lastServed {
			for o := range ls.always {
				stillReady := false
				for _, r := range readyNow {
					if r.name == o {
						stillReady = true
					}
				}
				if !stillReady {
					ls.always[o] = false
				}
			}
		}
		got := q.Pop()
		step++
		res.Count("pops", 1)
		if got == nil {
			for _, x := range glist {
				x.skip() // the scan visited every group
			}
			sc.Ops = append(sc.Ops, qOp{Op: "pop", Got: "nil"})
			if len(readyNow) > 0 {
				viol("C12", "nil-while-ready", "pop-nil-while-ready", fmt.Sprintf("Pop returned nil although group %s has a chunk ready", readyNow[0].name))
			}
			continue
		}
		off, ln := got.GetSlice()
		sc.Ops = append(sc.Ops, qOp{Op: "pop", Got: fmt.Sprintf("%s[%d+%d] prev=%q", got.GetName(), off, ln, got.GetPrev())})
		gn := grouper(got.GetName())
		g := groups[gn]
		if g == nil || len(g.pending) == 0 {
			viol("C10", "unknown-file", "pop-unknown", fmt.Sprintf("Pop returned %s which the model does not have pending", got.GetName()))
			return
		}
		// scan-list model: groups in front of the served one were visited (their
		// leading placeholders are gone now); the served group rotates behind its
		// same-priority peers
		gi := -1
		var predicted *mGroup
		for i, x := range glist {
			if predicted == nil && x.ready(now) {
				predicted = x
			}
			if x == g {
				gi = i
				break
			}
			x.skip()
		}
		if predicted != g {
			diverged = true
			res.Count("histories_where_scan_model_diverged", 1)
		}
		g.skip()
		if gi >= 0 {
			n := gi
			for n+1 < len(glist) && glist[n+1].tag.Priority == g.tag.Priority {
				n++
			}
			if n != gi {
				copy(glist[gi:], glist[gi+1:n+1])
				glist[n] = g
			}
		}
		isReady := false
		for _, r := range readyNow {
			if r == g {
				isReady = true
			}
		}
		if !isReady {
			why := "not ready"
			if g.tag.LastDelay > 0 && len(g.pending) == 1 {
				why = fmt.Sprintf("its only remaining file is %s old, last-delay %s", now.Sub(g.pending[0].time), g.tag.LastDelay)
			}
			viol("C12", "served-unready-group", "served-unready", fmt.Sprintf("Pop served group %s which is %s", gn, why))
			viol("C10", "served-unready-group", "served-unready", fmt.Sprintf("Pop served group %s which is %s", gn, why))
			return
		}
		if g.tag.Priority < maxPrio {
			viol("C12", "strict-priority", "priority-inversion", fmt.Sprintf("Pop served group %s (priority %d) while a group of priority %d was ready", gn, g.tag.Priority, maxPrio))
		}
		// rotation: since g's previous service, every same-priority group that was
		// ready at every pop in between must have been served in between
		if ls := lastServed[gn]; ls != nil {
			for other, always := range ls.always {
				if always && !ls.served[other] && groups[other] != nil && groups[other].tag.Priority == g.tag.Priority {
					viol("C12", "round-robin", "starved-peer", fmt.Sprintf("group %s was served at pops %d and %d while %s (same priority, ready throughout) was not served in between", gn, ls.step, step, other))
					break
				}
			}
		}
		// update trackers
		for name, ls := range lastServed {
			if name == gn {
				continue
			}
			ls.served[gn] = true
		}
		ns := &since{step: step, always: map[string]bool{}, served: map[string]bool{}}
		for _, r := range readyNow {
			if r != g && r.tag.Priority == g.tag.Priority {
				ns.always[r.name] = true
			}
		}
		lastServed[gn] = ns

		// ---- C10: which file, which predecessor
		head := g.pending[0]
		if got.GetName() != head.name {
			viol("C10", "order", "wrong-file-first", fmt.Sprintf("group %s order %q: Pop returned %s but %s comes first among pending %v", gn, g.tag.Order, got.GetName(), head.name, pendingNames(g)))
			return // model and implementation diverged
		}
		var wantPrev string
		switch {
		case g.tag.Order == sts.OrderNone:
			wantPrev = ""
		case head.recovered:
			wantPrev = head.rprev
		default:
			wantPrev = g.last
		}
		if wantPrev == head.name {
			wantPrev = ""
		}
		if got.GetPrev() != wantPrev && !(diverged && !head.recovered && g.tag.Order != sts.OrderNone) {
			fp := "prev-mismatch"
			switch {
			case got.GetPrev() == head.name:
				fp = "prev-self"
			case g.tag.Order == sts.OrderNone:
				fp = "prev-on-unordered"
			case head.recovered:
				fp = "prev-resumed-changed"
			case got.GetPrev() == "" && pushedTwice:
				fp = "prev-lost-after-repush"
			case got.GetPrev() == "":
				fp = "prev-lost"
			}
			viol("C10", "predecessor", fp, fmt.Sprintf("group %s order %q: %s announced predecessor %q, expected %q (last file that left the front of the group)", gn, g.tag.Order, head.name, got.GetPrev(), wantPrev))
		}
		if got.GetPrev() != "" {
			lastPrev[head.name] = got.GetPrev()
		}
		// ---- C11: the chunk
		wOff, wLen := head.next(g.tag.ChunkSize)
		if off != wOff || ln != wLen {
			viol("C11", "chunk-tiling", chunkFP(head), fmt.Sprintf("%s (size %d, chunk %d, resumed=%v left=%v): popped chunk [%d,+%d), expected [%d,+%d)", head.name, head.size, g.tag.ChunkSize, head.recovered, head.left, off, ln, wOff, wLen))
			return
		}
		if ln < 1 || (g.tag.ChunkSize > 0 && ln > g.tag.ChunkSize) || off < 0 || off+ln > head.size {
			viol("C11", "chunk-bounds", "chunk-bounds", fmt.Sprintf("%s: chunk [%d,+%d) violates bounds (size %d, chunk size %d)", head.name, off, ln, head.size, g.tag.ChunkSize))
		}
		if got.GetSendSize() != head.sendSize() {
			viol("C11", "send-size", "send-size", fmt.Sprintf("%s: send size %d, expected %d", head.name, got.GetSendSize(), head.sendSize()))
		}
		head.chunks = append(head.chunks, rng2{off, off + ln})
		head.advance(g.tag.ChunkSize)
		res.Count("chunks", 1)
		if head.allocated() {
			// exact cover check over everything handed out for this file
			if d := coverDiff(head); d != "" {
				viol("C11", "exact-cover", "cover", head.name+": "+d)
			}
			g.last = head.name
			g.pending = g.pending[1:]
			res.Count("files_completed", 1)
		}
	}
	// acyclic predecessor relation when no name was queued twice
	if !pushedTwice {
		for start := range lastPrev {
			seen := map[string]bool{}
			cur := start
			for cur != "" && !seen[cur] {
				seen[cur] = true
				cur = lastPrev[cur]
			}
			if cur != "" {
				viol("C10", "acyclic", "prev-cycle", fmt.Sprintf("announced predecessors form a cycle through %s", cur))
				break
			}
		}
	}
	// non-trivial rule per property
	sig := fmt.Sprintf("%v|%v|%d", sc.Tags, sc.Groups, len(sc.Ops))
	switch prop {
	case "C12":
		if multiReady {
			res.NonTrivial(sig)
		}
		if held {
			res.Count("histories_with_delay_hold", 1)
		}
	default:
		if step > 3 {
			res.NonTrivial(sig)
		}
		if late {
			res.Count("histories_with_late_arrival_before_half_emitted_file", 1)
		}
		if pushedTwice {
			res.Count("histories_with_repush", 1)
		}
	}
	s := *sc
	if len(s.Ops) > 25 {
		s.Ops = s.Ops[:25]
	}
	res.Sample(&s)
}

func pendingNames(g *mGroup) []string {
	var out []string
	for i, p := range g.pending {
		if i > 6 {
			break
		}
		out = append(out, p.name)
	}
	return out
}

func chunkFP(f *mFile) string {
	if f.recovered {
		return "chunk-resumed"
	}
	return "chunk-plain"
}

// coverDiff checks that the chunks handed out are non-empty, ascending, disjoint
// and cover exactly [0,size) or exactly the missing ranges
func coverDiff(f *mFile) string {
	var want []rng2
	if f.recovered {
		want = f.left
	} else {
		want = []rng2{{0, f.size}}
	}
	pos := int64(-1)
	var covered int64
	for _, c := range f.chunks {
		if c.End <= c.Beg {
			return fmt.Sprintf("empty chunk %v", c)
		}
		if c.Beg < pos {
			return fmt.Sprintf("chunk %v overlaps or is out of order", c)
		}
		pos = c.End
		covered += c.End - c.Beg
		inside := false
		for _, w := range want {
			if c.Beg >= w.Beg && c.End <= w.End {
				inside = true
			}
		}
		if !inside {
			return fmt.Sprintf("chunk %v not inside any wanted range %v", c, want)
		}
	}
	var total int64
	for _, w := range want {
		total += w.End - w.Beg
	}
	if covered != total {
		return fmt.Sprintf("chunks cover %d bytes, wanted %d", covered, total)
	}
	return ""
}
