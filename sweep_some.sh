#!/bin/sh
# usage: sweep_some.sh <tier> <seed> <check>...   like sweep.sh for the named checks only
T=$1; S=$2; shift; shift
for P in "$@"; do
  VERIF_SEED=$S ./check $P $T 2>&1 | grep -v "^KNOWN-FINDING" | grep "VIOLATION\|fingerprint=\| seed=\|note:" | cut -c1-300
done
